// ===========================================================================
// GHOST LIBRARY — spec functions and lemmas (all proved by Verus, no assume).
// ===========================================================================
verus! {
pub mod ghost {
use vstd::prelude::*;

/// Mathematical LEB128 (little-endian base-128, continuation bit 0x80).
pub open spec fn leb(n: nat) -> Seq<u8>
    decreases n
{
    if n < 128 { seq![n as u8] } else { seq![((n % 128) + 128) as u8] + leb(n / 128) }
}


/// Explicit shape of leb(n) for 32-bit n (what the 5 arms of the encoder write).
pub proof fn lemma_leb32(n: u32)
    ensures
        n < 128 ==> leb(n as nat) == seq![n as u8],
        128 <= n < 16384 ==> leb(n as nat) == seq![((n % 128) + 128) as u8, (n / 128) as u8],
        16384 <= n < 2097152 ==> leb(n as nat) == seq![((n % 128) + 128) as u8, (((n / 128) % 128) + 128) as u8, (n / 128 / 128) as u8],
        2097152 <= n < 268435456 ==> leb(n as nat) == seq![((n % 128) + 128) as u8, (((n / 128) % 128) + 128) as u8, (((n / 128 / 128) % 128) + 128) as u8, (n / 128 / 128 / 128) as u8],
        268435456 <= n ==> leb(n as nat) == seq![((n % 128) + 128) as u8, (((n / 128) % 128) + 128) as u8, (((n / 128 / 128) % 128) + 128) as u8, (((n / 128 / 128 / 128) % 128) + 128) as u8, (n / 128 / 128 / 128 / 128) as u8],
        1 <= leb(n as nat).len() <= 5,
{
    reveal_with_fuel(leb, 5);
    assert(n / 128 / 128 / 128 / 128 < 16) by (bit_vector);
}

pub proof fn lemma_dec1(n: u32, d0: u8) by (bit_vector)
    requires n < 128, d0 == n as u8,
    ensures d0 & 0x80 == 0, (d0 & 0x7f) as u32 == n,
{}
pub proof fn lemma_dec2(n: u32, d0: u8, d1: u8) by (bit_vector)
    requires 128 <= n < 16384, d0 == ((n % 128) + 128) as u8, d1 == (n / 128) as u8,
    ensures d0 & 0x80 != 0, d1 & 0x80 == 0,
        ((d0 & 0x7f) as u32) | (((d1 & 0x7f) as u32) << 7) == n,
{}
pub proof fn lemma_dec3(n: u32, d0: u8, d1: u8, d2: u8) by (bit_vector)
    requires 16384 <= n < 2097152, d0 == ((n % 128) + 128) as u8, d1 == (((n / 128) % 128) + 128) as u8, d2 == (n / 128 / 128) as u8,
    ensures d0 & 0x80 != 0, d1 & 0x80 != 0, d2 & 0x80 == 0,
        ((d0 & 0x7f) as u32) | (((d1 & 0x7f) as u32) << 7) | (((d2 & 0x7f) as u32) << 14) == n,
{}
pub proof fn lemma_dec4(n: u32, d0: u8, d1: u8, d2: u8, d3: u8) by (bit_vector)
    requires 2097152 <= n < 268435456, d0 == ((n % 128) + 128) as u8, d1 == (((n / 128) % 128) + 128) as u8,
        d2 == (((n / 128 / 128) % 128) + 128) as u8, d3 == (n / 128 / 128 / 128) as u8,
    ensures d0 & 0x80 != 0, d1 & 0x80 != 0, d2 & 0x80 != 0, d3 & 0x80 == 0,
        ((d0 & 0x7f) as u32) | (((d1 & 0x7f) as u32) << 7) | (((d2 & 0x7f) as u32) << 14) | (((d3 & 0x7f) as u32) << 21) == n,
{}
pub proof fn lemma_dec5(n: u32, d0: u8, d1: u8, d2: u8, d3: u8, d4: u8) by (bit_vector)
    requires 268435456 <= n, d0 == ((n % 128) + 128) as u8, d1 == (((n / 128) % 128) + 128) as u8,
        d2 == (((n / 128 / 128) % 128) + 128) as u8, d3 == (((n / 128 / 128 / 128) % 128) + 128) as u8, d4 == (n / 128 / 128 / 128 / 128) as u8,
    ensures d0 & 0x80 != 0, d1 & 0x80 != 0, d2 & 0x80 != 0, d3 & 0x80 != 0, d4 & 0x80 == 0,
        ((d0 & 0x7f) as u32) | (((d1 & 0x7f) as u32) << 7) | (((d2 & 0x7f) as u32) << 14) | (((d3 & 0x7f) as u32) << 21) | ((d4 as u32) << 28) == n,
{}


// ---------------------------------------------------------------------------
// entries, framing, payload (C01/C09/C14 block layout, written from the C09 statement)
// ---------------------------------------------------------------------------
pub type Ent = (Seq<u8>, Seq<u8>);

pub open spec fn frame(e: Ent) -> Seq<u8> {
    leb(e.0.len()) + leb(e.1.len()) + e.0 + e.1
}

pub open spec fn payload(es: Seq<Ent>) -> Seq<u8>
    decreases es.len()
{
    if es.len() == 0 { Seq::<u8>::empty() } else { payload(es.drop_last()) + frame(es.last()) }
}

pub open spec fn ent_small(e: Ent) -> bool { e.0.len() <= u32::MAX && e.1.len() <= u32::MAX }

pub open spec fn ents_small(es: Seq<Ent>) -> bool { forall|i: int| 0 <= i < es.len() ==> ent_small(#[trigger] es[i]) }

/// byte offset at which entry i starts in payload(es)
pub open spec fn start_of(es: Seq<Ent>, i: int) -> int { payload(es.subrange(0, i)).len() as int }

pub proof fn lemma_payload_push(es: Seq<Ent>, e: Ent)
    ensures payload(es.push(e)) == payload(es) + frame(e),
{
    assert(es.push(e).drop_last() == es);
}

pub proof fn lemma_payload_prefix_len(es: Seq<Ent>, i: int)
    requires 0 <= i <= es.len(),
    ensures payload(es.subrange(0, i)).len() <= payload(es).len(),
    decreases es.len() - i,
{
    if i < es.len() {
        let p = es.subrange(0, i + 1);
        assert(p.drop_last() == es.subrange(0, i));
        lemma_payload_prefix_len(es, i + 1);
    } else {
        assert(es.subrange(0, i) == es);
    }
}

// ---------------------------------------------------------------------------
// lexicographic byte order (C02/C18 oracle)
// ---------------------------------------------------------------------------
pub open spec fn lex_cmp(a: Seq<u8>, b: Seq<u8>) -> core::cmp::Ordering
    decreases a.len()
{
    if a.len() == 0 && b.len() == 0 { core::cmp::Ordering::Equal }
    else if a.len() == 0 { core::cmp::Ordering::Less }
    else if b.len() == 0 { core::cmp::Ordering::Greater }
    else if a[0] < b[0] { core::cmp::Ordering::Less }
    else if a[0] > b[0] { core::cmp::Ordering::Greater }
    else { lex_cmp(a.drop_first(), b.drop_first()) }
}
pub open spec fn lex_lt(a: Seq<u8>, b: Seq<u8>) -> bool { lex_cmp(a, b) == core::cmp::Ordering::Less }
pub open spec fn lex_le(a: Seq<u8>, b: Seq<u8>) -> bool { lex_cmp(a, b) != core::cmp::Ordering::Greater }

pub proof fn lemma_lex_antisym(a: Seq<u8>, b: Seq<u8>)
    ensures
        lex_cmp(a, b) == core::cmp::Ordering::Less <==> lex_cmp(b, a) == core::cmp::Ordering::Greater,
        lex_cmp(a, b) == core::cmp::Ordering::Equal <==> lex_cmp(b, a) == core::cmp::Ordering::Equal,
    decreases a.len()
{
    if a.len() > 0 && b.len() > 0 && a[0] == b[0] { lemma_lex_antisym(a.drop_first(), b.drop_first()); }
}
/// antisymmetry available automatically wherever a comparison appears (so that `a < b` and `b > a` in the code are
/// interchangeable for the proofs: a swapped operand order must not need a different proof script)
pub broadcast proof fn lemma_lex_antisym_auto(a: Seq<u8>, b: Seq<u8>)
    ensures
        (#[trigger] lex_cmp(a, b) == core::cmp::Ordering::Less) <==> lex_cmp(b, a) == core::cmp::Ordering::Greater,
        lex_cmp(a, b) == core::cmp::Ordering::Equal <==> lex_cmp(b, a) == core::cmp::Ordering::Equal,
        lex_cmp(a, b) == core::cmp::Ordering::Greater <==> lex_cmp(b, a) == core::cmp::Ordering::Less,
{
    lemma_lex_antisym(a, b); lemma_lex_antisym(b, a);
    lemma_lex_antisym(b, a); lemma_lex_antisym(a, b);
}
pub proof fn lemma_lex_eq(a: Seq<u8>, b: Seq<u8>)
    ensures lex_cmp(a, b) == core::cmp::Ordering::Equal <==> a == b,
    decreases a.len()
{
    if a.len() > 0 && b.len() > 0 && a[0] == b[0] {
        lemma_lex_eq(a.drop_first(), b.drop_first());
        if a.drop_first() == b.drop_first() {
            assert(a =~= seq![a[0]] + a.drop_first());
            assert(b =~= seq![b[0]] + b.drop_first());
        }
    } else if a.len() == 0 && b.len() == 0 {
        assert(a =~= b);
    }
}
pub proof fn lemma_lex_trans(a: Seq<u8>, b: Seq<u8>, c: Seq<u8>)
    requires lex_lt(a, b), lex_le(b, c),
    ensures lex_lt(a, c),
    decreases a.len()
{
    if a.len() > 0 && b.len() > 0 && c.len() > 0 && a[0] == b[0] && b[0] == c[0] {
        lemma_lex_trans(a.drop_first(), b.drop_first(), c.drop_first());
    }
}
pub proof fn lemma_lex_trans2(a: Seq<u8>, b: Seq<u8>, c: Seq<u8>)
    requires lex_le(a, b), lex_lt(b, c),
    ensures lex_lt(a, c),
    decreases a.len()
{
    if a.len() > 0 && b.len() > 0 && c.len() > 0 && a[0] == b[0] && b[0] == c[0] {
        lemma_lex_trans2(a.drop_first(), b.drop_first(), c.drop_first());
    }
}

/// keys strictly ascending (adjacent form, which is what an append-only writer can maintain)
pub open spec fn sorted_strict(es: Seq<Ent>) -> bool {
    forall|i: int| 0 <= i < es.len() - 1 ==> lex_lt(#[trigger] es[i].0, es[i + 1].0)
}

pub proof fn lemma_sorted_pairwise(es: Seq<Ent>, i: int, j: int)
    requires sorted_strict(es), 0 <= i < j < es.len(),
    ensures lex_lt(es[i].0, es[j].0),
    decreases j - i
{
    if j > i + 1 {
        lemma_sorted_pairwise(es, i, j - 1);
        assert(lex_lt(es[j - 1].0, es[j].0));
        lemma_lex_trans(es[i].0, es[j - 1].0, es[j].0);
    }
}

// ---------------------------------------------------------------------------
// fixed-width integers (C09: u64/u32 big-endian in blocks, little-endian in the trailer)
// ---------------------------------------------------------------------------
pub open spec fn be_bytes(x: nat, n: nat) -> Seq<u8>
    decreases n
{
    if n == 0 { Seq::<u8>::empty() } else { be_bytes(x / 256, (n - 1) as nat).push((x % 256) as u8) }
}
pub open spec fn le_bytes(x: nat, n: nat) -> Seq<u8>
    decreases n
{
    if n == 0 { Seq::<u8>::empty() } else { seq![(x % 256) as u8] + le_bytes(x / 256, (n - 1) as nat) }
}
pub open spec fn be64(x: u64) -> Seq<u8> { be_bytes(x as nat, 8) }
pub open spec fn be32(x: u32) -> Seq<u8> { be_bytes(x as nat, 4) }
pub open spec fn le64(x: u64) -> Seq<u8> { le_bytes(x as nat, 8) }
pub open spec fn le32(x: u32) -> Seq<u8> { le_bytes(x as nat, 4) }

pub proof fn lemma_be_len(x: nat, n: nat)
    ensures be_bytes(x, n).len() == n, le_bytes(x, n).len() == n,
    decreases n
{
    if n > 0 { lemma_be_len(x / 256, (n - 1) as nat); }
}

pub open spec fn be64s(xs: Seq<u64>) -> Seq<u8>
    decreases xs.len()
{
    if xs.len() == 0 { Seq::<u8>::empty() } else { be64s(xs.drop_last()) + be64(xs.last()) }
}
pub open spec fn le64s(xs: Seq<u64>) -> Seq<u8>
    decreases xs.len()
{
    if xs.len() == 0 { Seq::<u8>::empty() } else { le64s(xs.drop_last()) + le64(xs.last()) }
}
pub proof fn lemma_be64s_len(xs: Seq<u64>)
    ensures be64s(xs).len() == 8 * xs.len(),
    decreases xs.len()
{
    if xs.len() > 0 { lemma_be64s_len(xs.drop_last()); lemma_be_len(xs.last() as nat, 8); }
}

/// The offset table of a block holding `es` with one slot per `interval` entries (first slot 0, even when empty).
pub open spec fn footer_len(n: int, interval: int) -> int {
    if n <= 0 { 1 } else { (n - 1) / interval + 1 }
}
pub open spec fn footer_offsets(es: Seq<Ent>, interval: int) -> Seq<u64> {
    Seq::new(footer_len(es.len() as int, interval) as nat, |j: int| start_of(es, j * interval) as u64)
}
/// Uncompressed bytes of a block (C09): entries, offset table (u64 BE), count (u32 BE).
pub open spec fn block_bytes(es: Seq<Ent>, interval: int) -> Seq<u8> {
    payload(es) + be64s(footer_offsets(es, interval)) + be32(footer_len(es.len() as int, interval) as u32)
}


pub open spec fn pow256(n: nat) -> nat decreases n { if n == 0 { 1 } else { 256 * pow256((n - 1) as nat) } }

pub proof fn lemma_le_inj(x: nat, y: nat, n: nat)
    requires x < pow256(n), y < pow256(n), le_bytes(x, n) == le_bytes(y, n),
    ensures x == y,
    decreases n
{
    if n > 0 {
        let a = le_bytes(x, n); let b = le_bytes(y, n);
        assert(a[0] == b[0]);
        assert(a.drop_first() =~= le_bytes(x / 256, (n - 1) as nat));
        assert(b.drop_first() =~= le_bytes(y / 256, (n - 1) as nat));
        assert(x / 256 < pow256((n - 1) as nat)) by (nonlinear_arith) requires x < 256 * pow256((n - 1) as nat);
        assert(y / 256 < pow256((n - 1) as nat)) by (nonlinear_arith) requires y < 256 * pow256((n - 1) as nat);
        lemma_le_inj(x / 256, y / 256, (n - 1) as nat);
        assert((x % 256) as u8 == (y % 256) as u8);
    }
}
pub proof fn lemma_be_inj(x: nat, y: nat, n: nat)
    requires x < pow256(n), y < pow256(n), be_bytes(x, n) == be_bytes(y, n),
    ensures x == y,
    decreases n
{
    if n > 0 {
        let a = be_bytes(x, n); let b = be_bytes(y, n);
        assert(a.last() == b.last());
        assert(a.drop_last() =~= be_bytes(x / 256, (n - 1) as nat));
        assert(b.drop_last() =~= be_bytes(y / 256, (n - 1) as nat));
        assert(x / 256 < pow256((n - 1) as nat)) by (nonlinear_arith) requires x < 256 * pow256((n - 1) as nat);
        assert(y / 256 < pow256((n - 1) as nat)) by (nonlinear_arith) requires y < 256 * pow256((n - 1) as nat);
        lemma_be_inj(x / 256, y / 256, (n - 1) as nat);
        assert((x % 256) as u8 == (y % 256) as u8);
    }
}
pub proof fn lemma_pow256()
    ensures pow256(1) == 256, pow256(4) == 0x1_0000_0000, pow256(8) == 0x1_0000_0000_0000_0000,
{
    reveal_with_fuel(pow256, 9);
}


pub proof fn lemma_leb_len(n: nat)
    ensures leb(n).len() >= 1,
    decreases n
{
    if n >= 128 { lemma_leb_len(n / 128); }
}
pub proof fn lemma_frame_len(e: Ent)
    ensures frame(e).len() >= 2 + e.0.len() + e.1.len(),
{
    lemma_leb_len(e.0.len()); lemma_leb_len(e.1.len());
}
pub proof fn lemma_start_of_step(es: Seq<Ent>, i: int)
    requires 0 <= i < es.len(),
    ensures
        payload(es.subrange(0, i + 1)) == payload(es.subrange(0, i)) + frame(es[i]),
        start_of(es, i + 1) == start_of(es, i) + frame(es[i]).len(),
        start_of(es, i + 1) >= start_of(es, i) + 2,
{
    let p = es.subrange(0, i + 1);
    assert(p.drop_last() == es.subrange(0, i));
    assert(p.last() == es[i]);
    lemma_frame_len(es[i]);
}
pub proof fn lemma_payload_prefix(es: Seq<Ent>, i: int)
    requires 0 <= i <= es.len(),
    ensures
        payload(es.subrange(0, i)).is_prefix_of(payload(es)),
        start_of(es, i) <= payload(es).len(),
    decreases es.len() - i
{
    if i < es.len() {
        lemma_start_of_step(es, i);
        lemma_payload_prefix(es, i + 1);
        let a = payload(es.subrange(0, i)); let b = payload(es.subrange(0, i + 1)); let c = payload(es);
        assert(a.is_prefix_of(b));
        assert(a.is_prefix_of(c)) by {
            assert(a.len() <= b.len() <= c.len());
            assert forall|k: int| 0 <= k < a.len() implies a[k] == c[k] by { assert(a[k] == b[k]); assert(b[k] == c[k]); }
        }
    } else {
        assert(es.subrange(0, i) == es);
    }
}
pub proof fn lemma_payload_at(es: Seq<Ent>, i: int)
    requires 0 <= i < es.len(),
    ensures
        start_of(es, i + 1) <= payload(es).len(),
        payload(es).subrange(start_of(es, i), start_of(es, i + 1)) == frame(es[i]),
{
    lemma_start_of_step(es, i);
    lemma_payload_prefix(es, i + 1);
    let b = payload(es.subrange(0, i + 1)); let c = payload(es);
    assert(c.subrange(start_of(es, i), start_of(es, i + 1)) =~= frame(es[i])) by {
        assert forall|k: int| 0 <= k < frame(es[i]).len() implies c[start_of(es, i) + k] == frame(es[i])[k] by {
            assert(b[start_of(es, i) + k] == frame(es[i])[k]);
            assert(b[start_of(es, i) + k] == c[start_of(es, i) + k]);
        }
    }
}
pub proof fn lemma_start_of_mono(es: Seq<Ent>, i: int, j: int)
    requires 0 <= i < j <= es.len(),
    ensures start_of(es, i) < start_of(es, j),
    decreases j - i
{
    lemma_start_of_step(es, j - 1);
    if i < j - 1 { lemma_start_of_mono(es, i, j - 1); }
}
pub proof fn lemma_start_of_ends(es: Seq<Ent>)
    ensures start_of(es, 0) == 0, start_of(es, es.len() as int) == payload(es).len(),
{
    assert(es.subrange(0, 0) == Seq::<Ent>::empty());
    assert(es.subrange(0, es.len() as int) == es);
}


// ---------------------------------------------------------------------------
// search oracles on a strictly sorted entry list (C02), written from the statement
// ---------------------------------------------------------------------------
/// c is the index of the entry with the smallest key >= q (c == |es| when there is none)
pub open spec fn is_ceil(es: Seq<Ent>, q: Seq<u8>, c: int) -> bool {
    &&& 0 <= c <= es.len()
    &&& forall|j: int| 0 <= j < c ==> lex_lt(#[trigger] es[j].0, q)
    &&& (c < es.len() ==> lex_le(q, es[c].0))
}
/// f is the index of the entry with the largest key <= q (f == -1 when there is none)
pub open spec fn is_floor(es: Seq<Ent>, q: Seq<u8>, f: int) -> bool {
    &&& -1 <= f < es.len()
    &&& forall|j: int| f < j < es.len() ==> lex_lt(q, #[trigger] es[j].0)
    &&& (f >= 0 ==> lex_le(es[f].0, q))
}
pub open spec fn view_of(e: Option<(&[u8], &[u8])>) -> Option<Ent> {
    match e { Some(p) => Some((p.0@, p.1@)), None => None }
}
pub open spec fn ent_at(es: Seq<Ent>, i: int) -> Option<Ent> {
    if 0 <= i < es.len() { Some(es[i]) } else { None }
}


pub proof fn lemma_footer_last(n: int, iv: int)
    requires n >= 0, iv >= 1,
    ensures
        footer_len(n, iv) >= 1,
        (footer_len(n, iv) - 1) * iv >= 0,
        n > 0 ==> (footer_len(n, iv) - 1) * iv <= n - 1,
        n == 0 ==> (footer_len(n, iv) - 1) * iv == 0,
        forall|j: int| 0 <= j < footer_len(n, iv) ==> 0 <= #[trigger] (j * iv) && (n > 0 ==> j * iv <= n - 1) && (n == 0 ==> j * iv == 0),
{
    if n > 0 {
        let q = (n - 1) / iv;
        assert(q * iv <= n - 1) by (nonlinear_arith) requires q == (n - 1) / iv, iv >= 1, n >= 1;
        assert(q >= 0) by (nonlinear_arith) requires q == (n - 1) / iv, iv >= 1, n >= 1;
        assert forall|j: int| 0 <= j < q + 1 implies 0 <= #[trigger] (j * iv) && j * iv <= n - 1 by {
            assert(0 <= j * iv && j * iv <= q * iv) by (nonlinear_arith) requires 0 <= j <= q, iv >= 1;
        }
    }
}


// ---- parse uniqueness: a payload determines its entries ----
/// LEB128 is prefix-free: two encodings followed by anything agree only if the numbers agree
pub proof fn lemma_leb_prefix_free(a: nat, b: nat, x: Seq<u8>, y: Seq<u8>)
    requires leb(a) + x == leb(b) + y,
    ensures a == b, x == y,
    decreases a
{
    let l = leb(a) + x; let r = leb(b) + y;
    lemma_leb_len(a); lemma_leb_len(b);
    assert(l[0] == leb(a)[0]);
    assert(r[0] == leb(b)[0]);
    if a < 128 {
        assert(leb(a)[0] == a as u8);
        if b >= 128 { assert(leb(b)[0] == ((b % 128) + 128) as u8); assert(false); }
        assert(leb(b)[0] == b as u8);
        assert(a == b);
        assert(x =~= l.subrange(1, l.len() as int));
        assert(y =~= r.subrange(1, r.len() as int));
    } else {
        assert(leb(a)[0] == ((a % 128) + 128) as u8);
        if b < 128 { assert(leb(b)[0] == b as u8); assert(false); }
        assert(leb(b)[0] == ((b % 128) + 128) as u8);
        assert(a % 128 == b % 128);
        let la = leb(a / 128); let lb = leb(b / 128);
        assert(leb(a) =~= seq![((a % 128) + 128) as u8] + la);
        assert(leb(b) =~= seq![((b % 128) + 128) as u8] + lb);
        assert(la + x =~= l.subrange(1, l.len() as int));
        assert(lb + y =~= r.subrange(1, r.len() as int));
        lemma_leb_prefix_free(a / 128, b / 128, x, y);
    }
}

pub proof fn lemma_frame_parse(e1: Ent, e2: Ent, x: Seq<u8>, y: Seq<u8>)
    requires frame(e1) + x == frame(e2) + y,
    ensures e1 == e2, x == y,
{
    let x1 = leb(e1.1.len()) + e1.0 + e1.1 + x;
    let y1 = leb(e2.1.len()) + e2.0 + e2.1 + y;
    assert(frame(e1) + x =~= leb(e1.0.len()) + x1);
    assert(frame(e2) + y =~= leb(e2.0.len()) + y1);
    lemma_leb_prefix_free(e1.0.len(), e2.0.len(), x1, y1);
    let x2 = e1.0 + e1.1 + x; let y2 = e2.0 + e2.1 + y;
    assert(x1 =~= leb(e1.1.len()) + x2);
    assert(y1 =~= leb(e2.1.len()) + y2);
    lemma_leb_prefix_free(e1.1.len(), e2.1.len(), x2, y2);
    assert(e1.0 =~= x2.subrange(0, e1.0.len() as int));
    assert(e2.0 =~= y2.subrange(0, e2.0.len() as int));
    assert(e1.1 =~= x2.subrange(e1.0.len() as int, (e1.0.len() + e1.1.len()) as int));
    assert(e2.1 =~= y2.subrange(e2.0.len() as int, (e2.0.len() + e2.1.len()) as int));
    assert(x =~= x2.subrange((e1.0.len() + e1.1.len()) as int, x2.len() as int));
    assert(y =~= y2.subrange((e2.0.len() + e2.1.len()) as int, y2.len() as int));
}

pub proof fn lemma_payload_front(es: Seq<Ent>)
    requires es.len() > 0,
    ensures payload(es) == frame(es[0]) + payload(es.drop_first()),
    decreases es.len()
{
    if es.len() == 1 {
        assert(es.drop_last() =~= Seq::<Ent>::empty());
        assert(es.drop_first() =~= Seq::<Ent>::empty());
        assert(payload(es) =~= frame(es[0]) + payload(es.drop_first()));
    } else {
        lemma_payload_front(es.drop_last());
        assert(es.drop_last().drop_first() =~= es.drop_first().drop_last());
        assert(es.drop_first().last() == es.last());
        assert(es.drop_last()[0] == es[0]);
        assert(payload(es) =~= frame(es[0]) + payload(es.drop_first()));
    }
}

pub proof fn lemma_payload_inj(es1: Seq<Ent>, es2: Seq<Ent>)
    requires payload(es1) == payload(es2),
    ensures es1 == es2,
    decreases es1.len()
{
    if es1.len() == 0 {
        if es2.len() > 0 { lemma_payload_front(es2); lemma_leb_len(es2[0].0.len()); assert(false); }
        assert(es1 =~= es2);
    } else {
        lemma_payload_front(es1);
        if es2.len() == 0 { lemma_leb_len(es1[0].0.len()); assert(false); }
        lemma_payload_front(es2);
        lemma_frame_parse(es1[0], es2[0], payload(es1.drop_first()), payload(es2.drop_first()));
        lemma_payload_inj(es1.drop_first(), es2.drop_first());
        assert(es1 =~= seq![es1[0]] + es1.drop_first());
        assert(es2 =~= seq![es2[0]] + es2.drop_first());
    }
}

/// where the four parts of a frame lie inside a byte string that contains it at position a
pub proof fn lemma_frame_parts(e: Ent, s: Seq<u8>, a: int)
    requires 0 <= a, a + frame(e).len() <= s.len(), s.subrange(a, a + frame(e).len()) == frame(e),
    ensures
        leb(e.0.len()).is_prefix_of(s.subrange(a, s.len() as int)),
        leb(e.1.len()).is_prefix_of(s.subrange(a + leb(e.0.len()).len(), s.len() as int)),
        s.subrange(a + leb(e.0.len()).len() + leb(e.1.len()).len(), a + leb(e.0.len()).len() + leb(e.1.len()).len() + e.0.len()) == e.0,
        s.subrange(a + leb(e.0.len()).len() + leb(e.1.len()).len() + e.0.len(), a + frame(e).len()) == e.1,
        frame(e).len() == leb(e.0.len()).len() + leb(e.1.len()).len() + e.0.len() + e.1.len(),
{
    let f = frame(e); let l1 = leb(e.0.len()); let l2 = leb(e.1.len());
    let n1 = l1.len() as int; let n2 = l2.len() as int;
    assert forall|k: int| 0 <= k < f.len() implies s[a + k] == f[k] by {
        assert(s.subrange(a, a + f.len())[k] == f[k]);
    }
    let d1 = s.subrange(a, s.len() as int);
    assert(l1 =~= d1.subrange(0, n1)) by {
        assert forall|k: int| 0 <= k < n1 implies l1[k] == d1.subrange(0, n1)[k] by { assert(f[k] == l1[k]); assert(s[a + k] == f[k]); }
    }
    let d2 = s.subrange(a + n1, s.len() as int);
    assert(l2 =~= d2.subrange(0, n2)) by {
        assert forall|k: int| 0 <= k < n2 implies l2[k] == d2.subrange(0, n2)[k] by { assert(f[n1 + k] == l2[k]); assert(s[a + n1 + k] == f[n1 + k]); }
    }
    assert(s.subrange(a + n1 + n2, a + n1 + n2 + e.0.len()) =~= e.0) by {
        assert forall|k: int| 0 <= k < e.0.len() implies s[a + n1 + n2 + k] == e.0[k] by { assert(f[n1 + n2 + k] == e.0[k]); assert(s[a + (n1 + n2 + k)] == f[n1 + n2 + k]); }
    }
    assert(s.subrange(a + n1 + n2 + e.0.len(), a + f.len()) =~= e.1) by {
        assert forall|k: int| 0 <= k < e.1.len() implies s[a + n1 + n2 + e.0.len() + k] == e.1[k] by { assert(f[n1 + n2 + e.0.len() + k] == e.1[k]); assert(s[a + (n1 + n2 + e.0.len() + k)] == f[n1 + n2 + e.0.len() + k]); }
    }
}


/// facts about the offset table of a block: slot j holds the start of entry j*iv, slots are strictly increasing
pub proof fn lemma_footer_offsets(es: Seq<Ent>, iv: int)
    requires iv >= 1, payload(es).len() <= u64::MAX,
    ensures
        footer_offsets(es, iv).len() == footer_len(es.len() as int, iv),
        forall|j: int| 0 <= j < footer_len(es.len() as int, iv) ==> 0 <= j * iv <= es.len()
            && #[trigger] footer_offsets(es, iv)[j] as int == start_of(es, j * iv)
            && (es.len() > 0 ==> j * iv < es.len()),
        forall|a: int, b: int| 0 <= a < b < footer_len(es.len() as int, iv) ==> #[trigger] footer_offsets(es, iv)[a] < #[trigger] footer_offsets(es, iv)[b],
{
    let n = es.len() as int;
    let l = footer_len(n, iv);
    lemma_footer_last(n, iv);
    assert forall|j: int| 0 <= j < l implies 0 <= j * iv <= n && #[trigger] footer_offsets(es, iv)[j] as int == start_of(es, j * iv) && (n > 0 ==> j * iv < n) by {
        lemma_payload_prefix(es, j * iv);
    }
    assert forall|a: int, b: int| 0 <= a < b < l implies #[trigger] footer_offsets(es, iv)[a] < #[trigger] footer_offsets(es, iv)[b] by {
        assert(a * iv < b * iv) by (nonlinear_arith) requires 0 <= a < b, iv >= 1;
        lemma_payload_prefix(es, a * iv); lemma_payload_prefix(es, b * iv);
        lemma_start_of_mono(es, a * iv, b * iv);
    }
}
pub proof fn lemma_lex_irrefl(a: Seq<u8>)
    ensures !lex_lt(a, a),
{
    lemma_lex_eq(a, a);
}
pub proof fn lemma_sorted_distinct(es: Seq<Ent>, i: int, j: int)
    requires sorted_strict(es), 0 <= i < es.len(), 0 <= j < es.len(), es[i].0 == es[j].0,
    ensures i == j,
{
    if i < j { lemma_sorted_pairwise(es, i, j); lemma_lex_irrefl(es[i].0); }
    if j < i { lemma_sorted_pairwise(es, j, i); lemma_lex_irrefl(es[i].0); }
}


pub proof fn lemma_floor_at(es: Seq<Ent>, key: Seq<u8>, f: int)
    requires sorted_strict(es), 0 <= f < es.len(), es[f].0 == key,
    ensures is_floor(es, key, f),
{
    assert forall|j: int| f < j < es.len() implies lex_lt(key, #[trigger] es[j].0) by { lemma_sorted_pairwise(es, f, j); }
    lemma_lex_eq(key, key);
}
pub proof fn lemma_floor_scan(es: Seq<Ent>, key: Seq<u8>, t: int)
    requires sorted_strict(es), 0 < t <= es.len(), lex_le(es[t - 1].0, key), t < es.len() ==> lex_lt(key, es[t].0),
    ensures is_floor(es, key, t - 1),
{
    assert forall|j: int| t - 1 < j < es.len() implies lex_lt(key, #[trigger] es[j].0) by {
        if j > t { lemma_sorted_pairwise(es, t, j); lemma_lex_trans(key, es[t].0, es[j].0); }
    }
}
pub proof fn lemma_floor_none(es: Seq<Ent>, key: Seq<u8>)
    requires sorted_strict(es), es.len() > 0 ==> lex_lt(key, es[0].0),
    ensures is_floor(es, key, -1),
{
    assert forall|j: int| -1 < j < es.len() implies lex_lt(key, #[trigger] es[j].0) by {
        if j > 0 { lemma_sorted_pairwise(es, 0, j); lemma_lex_trans(key, es[0].0, es[j].0); }
    }
}
pub proof fn lemma_ceil_from_floor(es: Seq<Ent>, key: Seq<u8>, f: int)
    requires sorted_strict(es), is_floor(es, key, f),
    ensures
        f >= 0 && es[f].0 == key ==> is_ceil(es, key, f),
        !(f >= 0 && es[f].0 == key) ==> is_ceil(es, key, f + 1),
{
    if f >= 0 && es[f].0 == key {
        assert forall|j: int| 0 <= j < f implies lex_lt(#[trigger] es[j].0, key) by { lemma_sorted_pairwise(es, j, f); }
        lemma_lex_eq(key, key);
    } else {
        assert forall|j: int| 0 <= j < f + 1 implies lex_lt(#[trigger] es[j].0, key) by {
            lemma_lex_eq(es[f].0, key);
            if j < f { lemma_sorted_pairwise(es, j, f); lemma_lex_trans(es[j].0, es[f].0, key); }
        }
        if f + 1 < es.len() { assert(lex_lt(key, es[f + 1].0)); }
    }
}


/// block_bytes determines the entries: the trailing u32 gives the slot count, hence where the payload ends
pub proof fn lemma_block_bytes_inj(es: Seq<Ent>, iv: int, es2: Seq<Ent>, iv2: int)
    requires block_bytes(es, iv) == block_bytes(es2, iv2), iv >= 1, iv2 >= 1,
        footer_len(es.len() as int, iv) <= u32::MAX, footer_len(es2.len() as int, iv2) <= u32::MAX,
    ensures es == es2,
{
    let r1 = block_bytes(es, iv); let r2 = block_bytes(es2, iv2);
    let l1 = footer_len(es.len() as int, iv); let l2 = footer_len(es2.len() as int, iv2);
    lemma_footer_last(es.len() as int, iv); lemma_footer_last(es2.len() as int, iv2);
    lemma_be64s_len(footer_offsets(es, iv)); lemma_be64s_len(footer_offsets(es2, iv2));
    lemma_be_len(l1 as nat, 4); lemma_be_len(l2 as nat, 4);
    assert(r1.subrange(r1.len() - 4, r1.len() as int) =~= be32(l1 as u32));
    assert(r2.subrange(r2.len() - 4, r2.len() as int) =~= be32(l2 as u32));
    lemma_pow256();
    lemma_be_inj(l1 as nat, l2 as nat, 4);
    assert(payload(es).len() == payload(es2).len());
    assert(payload(es) =~= r1.subrange(0, payload(es).len() as int));
    assert(payload(es2) =~= r2.subrange(0, payload(es2).len() as int));
    lemma_payload_inj(es, es2);
}


// ---------------------------------------------------------------------------
// range / prefix oracles (C04, C05), written from the statements
// ---------------------------------------------------------------------------
pub open spec fn sat_start(b: core::ops::Bound<Seq<u8>>, k: Seq<u8>) -> bool {
    match b { core::ops::Bound::Unbounded => true, core::ops::Bound::Included(a) => lex_le(a, k), core::ops::Bound::Excluded(a) => lex_lt(a, k) }
}
pub open spec fn sat_end(b: core::ops::Bound<Seq<u8>>, k: Seq<u8>) -> bool {
    match b { core::ops::Bound::Unbounded => true, core::ops::Bound::Included(e) => lex_le(k, e), core::ops::Bound::Excluded(e) => lex_lt(k, e) }
}
/// a is the index of the first entry satisfying the start bound (|es| if none)
pub open spec fn is_lower(es: Seq<Ent>, b: core::ops::Bound<Seq<u8>>, a: int) -> bool {
    &&& 0 <= a <= es.len()
    &&& forall|j: int| 0 <= j < a ==> !sat_start(b, #[trigger] es[j].0)
    &&& (a < es.len() ==> sat_start(b, es[a].0))
}
/// u is the index of the last entry satisfying the end bound (-1 if none)
pub open spec fn is_upper(es: Seq<Ent>, b: core::ops::Bound<Seq<u8>>, u: int) -> bool {
    &&& -1 <= u < es.len()
    &&& forall|j: int| u < j < es.len() ==> !sat_end(b, #[trigger] es[j].0)
    &&& (u >= 0 ==> sat_end(b, es[u].0))
}
pub proof fn lemma_lower_included(es: Seq<Ent>, s: Seq<u8>, c: int)
    requires is_ceil(es, s, c),
    ensures is_lower(es, core::ops::Bound::Included(s), c),
{
    assert forall|j: int| 0 <= j < c implies !sat_start(core::ops::Bound::Included(s), #[trigger] es[j].0) by { lemma_lex_antisym(es[j].0, s); lemma_lex_antisym(s, es[j].0); }
}
pub proof fn lemma_lower_excluded(es: Seq<Ent>, s: Seq<u8>, c: int)
    requires sorted_strict(es), is_ceil(es, s, c),
    ensures
        c < es.len() && es[c].0 == s ==> is_lower(es, core::ops::Bound::Excluded(s), c + 1),
        !(c < es.len() && es[c].0 == s) ==> is_lower(es, core::ops::Bound::Excluded(s), c),
{
    let b = core::ops::Bound::Excluded(s);
    if c < es.len() && es[c].0 == s {
        assert forall|j: int| 0 <= j < c + 1 implies !sat_start(b, #[trigger] es[j].0) by {
            if j < c { lemma_lex_antisym(es[j].0, s); lemma_lex_antisym(s, es[j].0); } else { lemma_lex_irrefl(s); }
        }
        if c + 1 < es.len() { assert(lex_lt(es[c].0, es[c + 1].0)); }
    } else {
        assert forall|j: int| 0 <= j < c implies !sat_start(b, #[trigger] es[j].0) by { lemma_lex_antisym(es[j].0, s); lemma_lex_antisym(s, es[j].0); }
        if c < es.len() { lemma_lex_eq(s, es[c].0); }
    }
}
pub proof fn lemma_upper_included(es: Seq<Ent>, e: Seq<u8>, f: int)
    requires is_floor(es, e, f),
    ensures is_upper(es, core::ops::Bound::Included(e), f),
{
    assert forall|j: int| f < j < es.len() implies !sat_end(core::ops::Bound::Included(e), #[trigger] es[j].0) by { lemma_lex_antisym(e, es[j].0); lemma_lex_antisym(es[j].0, e); }
}
pub proof fn lemma_upper_excluded(es: Seq<Ent>, e: Seq<u8>, f: int)
    requires sorted_strict(es), is_floor(es, e, f),
    ensures
        f >= 0 && es[f].0 == e ==> is_upper(es, core::ops::Bound::Excluded(e), f - 1),
        !(f >= 0 && es[f].0 == e) ==> is_upper(es, core::ops::Bound::Excluded(e), f),
{
    let b = core::ops::Bound::Excluded(e);
    if f >= 0 && es[f].0 == e {
        assert forall|j: int| f - 1 < j < es.len() implies !sat_end(b, #[trigger] es[j].0) by {
            if j > f { lemma_lex_antisym(e, es[j].0); lemma_lex_antisym(es[j].0, e); } else { lemma_lex_irrefl(e); }
        }
        if f - 1 >= 0 { assert(lex_lt(es[f - 1].0, es[f].0)); }
    } else {
        assert forall|j: int| f < j < es.len() implies !sat_end(b, #[trigger] es[j].0) by { lemma_lex_antisym(e, es[j].0); lemma_lex_antisym(es[j].0, e); }
        if f >= 0 { lemma_lex_eq(es[f].0, e); }
    }
}


// ---- prefix successor (C05) ----
/// the smallest byte string greater than every string with prefix p (None when p is empty or all 0xFF)
pub open spec fn adv(p: Seq<u8>) -> Option<Seq<u8>>
    decreases p.len()
{
    if p.len() == 0 { None }
    else if p.last() < 255 { Some(p.drop_last().push((p.last() + 1) as u8)) }
    else { adv(p.drop_last()) }
}
pub proof fn lemma_lex_common_prefix(a: Seq<u8>, x: Seq<u8>, y: Seq<u8>)
    ensures lex_cmp(a + x, a + y) == lex_cmp(x, y),
    decreases a.len()
{
    if a.len() == 0 {
        assert(a + x =~= x); assert(a + y =~= y);
    } else {
        assert((a + x).drop_first() =~= a.drop_first() + x);
        assert((a + y).drop_first() =~= a.drop_first() + y);
        lemma_lex_common_prefix(a.drop_first(), x, y);
    }
}
pub proof fn lemma_adv_above(p: Seq<u8>, k: Seq<u8>)
    requires p.is_prefix_of(k), adv(p) is Some,
    ensures lex_lt(k, adv(p)->0),
    decreases p.len()
{
    let n = p.len() as int;
    if p.last() < 255 {
        let a = p.drop_last();
        let rest = k.subrange(n, k.len() as int);
        let x = seq![p.last()] + rest;
        let y = seq![(p.last() + 1) as u8];
        assert(k =~= a + x);
        assert(adv(p)->0 =~= a + y);
        lemma_lex_common_prefix(a, x, y);
        assert(x[0] < y[0]);
    } else {
        assert(p.drop_last().is_prefix_of(k));
        lemma_adv_above(p.drop_last(), k);
    }
}
/// conversely: a key that is >= p and below adv(p) has prefix p; with adv(p) == None every key >= p has prefix p
pub proof fn lemma_adv_tight(p: Seq<u8>, k: Seq<u8>)
    requires lex_le(p, k), adv(p) is Some ==> lex_lt(k, adv(p)->0),
    ensures p.is_prefix_of(k),
    decreases p.len()
{
    if p.len() == 0 {
    } else {
        // compare first bytes
        if k.len() == 0 { assert(lex_cmp(p, k) == core::cmp::Ordering::Greater); }
        assert(k.len() > 0);
        if p[0] != k[0] {
            // p < k with p[0] < k[0]; then adv(p) starts with byte <= ... derive contradiction
            assert(p[0] < k[0]);
            lemma_adv_first_byte(p);
            if adv(p) is Some {
                let np = adv(p)->0;
                // np[0] <= p[0] + 1 <= k[0]; if np[0] < k[0] then np < k contradiction; if equal need np.len()==1
                assert(np.len() >= 1);
                if np[0] < k[0] { assert(lex_cmp(k, np) == core::cmp::Ordering::Greater); }
                else { assert(np[0] == k[0]); assert(np.len() == 1);
                       let k1 = k.drop_first(); let n1 = np.drop_first();
                       assert(n1.len() == 0);
                       assert(lex_cmp(k, np) == lex_cmp(k1, n1));
                       assert(lex_cmp(k1, n1) != core::cmp::Ordering::Less);
                }
            } else {
                // adv(p) None means p is all 0xFF: p[0] == 255, cannot be < k[0]
                assert(p[0] == 255);
            }
        } else {
            let p1 = p.drop_first(); let k1 = k.drop_first();
            assert(lex_le(p1, k1));
            lemma_adv_drop_first(p);
            if adv(p1) is Some {
                // adv(p) == [p0] + adv(p1)
                let np = adv(p)->0;
                assert(np =~= seq![p[0]] + adv(p1)->0);
                assert(np.drop_first() =~= adv(p1)->0);
                assert(lex_lt(k1, adv(p1)->0));
            }
            lemma_adv_tight(p1, k1);
            assert(p =~= seq![p[0]] + p1);
            assert(k =~= seq![k[0]] + k1);
        }
    }
}
pub proof fn lemma_adv_first_byte(p: Seq<u8>)
    requires p.len() > 0,
    ensures
        adv(p) is None ==> p[0] == 255,
        adv(p) is Some ==> adv(p)->0.len() >= 1 && (adv(p)->0[0] == p[0] || (adv(p)->0[0] == p[0] + 1 && adv(p)->0.len() == 1)),
    decreases p.len()
{
    if p.last() < 255 {
        if p.len() == 1 { } else { assert(p.drop_last().push((p.last() + 1) as u8)[0] == p[0]); }
    } else {
        if p.len() > 1 { lemma_adv_first_byte(p.drop_last()); assert(p.drop_last()[0] == p[0]); }
    }
}
pub proof fn lemma_adv_drop_first(p: Seq<u8>)
    requires p.len() > 0,
    ensures
        adv(p.drop_first()) is Some ==> adv(p) == Some(seq![p[0]] + adv(p.drop_first())->0),
        adv(p.drop_first()) is None ==> (p[0] < 255 ==> adv(p) == Some(seq![(p[0] + 1) as u8])) && (p[0] == 255 ==> adv(p) is None),
    decreases p.len()
{
    let q = p.drop_first();
    if p.len() == 1 {
        assert(q.len() == 0);
        if p[0] < 255 { assert(p.drop_last().push((p.last() + 1) as u8) =~= seq![(p[0] + 1) as u8]); }
        else { assert(p.drop_last().len() == 0); }
    } else {
        assert(q.last() == p.last());
        assert(q.drop_last() =~= p.drop_last().drop_first());
        if p.last() < 255 {
            assert(p.drop_last().push((p.last() + 1) as u8) =~= seq![p[0]] + q.drop_last().push((q.last() + 1) as u8));
        } else {
            lemma_adv_drop_first(p.drop_last());
            assert(p.drop_last()[0] == p[0]);
        }
    }
}

pub proof fn lemma_prefix_le(p: Seq<u8>, k: Seq<u8>)
    requires p.is_prefix_of(k),
    ensures lex_le(p, k),
    decreases p.len()
{
    if p.len() > 0 {
        assert(p[0] == k[0]);
        assert(p.drop_first().is_prefix_of(k.drop_first())) by {
            assert(p.drop_first() =~= k.drop_first().subrange(0, p.len() - 1));
        }
        lemma_prefix_le(p.drop_first(), k.drop_first());
    }
}
/// the bound used by the reverse prefix iterator: keys strictly below adv(p), or no bound when adv(p) is None
pub open spec fn prefix_upper(p: Seq<u8>) -> core::ops::Bound<Seq<u8>> {
    match adv(p) { Some(np) => core::ops::Bound::Excluded(np), None => core::ops::Bound::Unbounded }
}


// ---------------------------------------------------------------------------
// whole-iteration statements (C04, C05): which window of the sorted entry list a drained iterator has yielded
// ---------------------------------------------------------------------------
pub proof fn lemma_sat_start_mono(b: core::ops::Bound<Seq<u8>>, k1: Seq<u8>, k2: Seq<u8>)
    requires sat_start(b, k1), lex_lt(k1, k2),
    ensures sat_start(b, k2),
{
    match b {
        core::ops::Bound::Unbounded => {}
        core::ops::Bound::Included(a) => { lemma_lex_trans2(a, k1, k2); }
        core::ops::Bound::Excluded(a) => { lemma_lex_trans(a, k1, k2); }
    }
}
pub proof fn lemma_sat_end_mono(b: core::ops::Bound<Seq<u8>>, k1: Seq<u8>, k2: Seq<u8>)
    requires sat_end(b, k2), lex_lt(k1, k2),
    ensures sat_end(b, k1),
{
    match b {
        core::ops::Bound::Unbounded => {}
        core::ops::Bound::Included(e) => { lemma_lex_trans(k1, k2, e); }
        core::ops::Bound::Excluded(e) => { lemma_lex_trans(k1, k2, e); }
    }
}
pub open spec fn in_range(start: core::ops::Bound<Seq<u8>>, end: core::ops::Bound<Seq<u8>>, k: Seq<u8>) -> bool {
    sat_start(start, k) && sat_end(end, k)
}
/// forward: starting at the first entry satisfying the start bound and going on while the end bound holds yields
/// exactly the entries inside the range (indices a..b of the sorted list, so in ascending key order)
pub proof fn lemma_range_window_fwd(es: Seq<Ent>, start: core::ops::Bound<Seq<u8>>, end: core::ops::Bound<Seq<u8>>, a: int, b: int)
    requires
        sorted_strict(es), is_lower(es, start, a), a <= b <= es.len(),
        forall|j: int| a <= j < b ==> sat_end(end, #[trigger] es[j].0),
        b < es.len() ==> !sat_end(end, es[b].0),
    ensures
        forall|j: int| 0 <= j < es.len() ==> ((a <= j < b) <==> in_range(start, end, #[trigger] es[j].0)),
{
    assert forall|j: int| 0 <= j < es.len() implies ((a <= j < b) <==> in_range(start, end, #[trigger] es[j].0)) by {
        if j > a { lemma_sorted_pairwise(es, a, j); lemma_sat_start_mono(start, es[a].0, es[j].0); }
        if j > b && sat_end(end, es[j].0) { lemma_sorted_pairwise(es, b, j); lemma_sat_end_mono(end, es[b].0, es[j].0); }
    }
}
/// reverse: starting at the last entry satisfying the end bound and going down while the start bound holds
pub proof fn lemma_range_window_rev(es: Seq<Ent>, start: core::ops::Bound<Seq<u8>>, end: core::ops::Bound<Seq<u8>>, u: int, l: int)
    requires
        sorted_strict(es), is_upper(es, end, u), 0 <= l <= u + 1,
        forall|j: int| l <= j <= u ==> sat_start(start, #[trigger] es[j].0),
        l > 0 ==> !sat_start(start, es[l - 1].0),
    ensures
        forall|j: int| 0 <= j < es.len() ==> ((l <= j <= u) <==> in_range(start, end, #[trigger] es[j].0)),
{
    assert forall|j: int| 0 <= j < es.len() implies ((l <= j <= u) <==> in_range(start, end, #[trigger] es[j].0)) by {
        if j < u { lemma_sorted_pairwise(es, j, u); lemma_sat_end_mono(end, es[j].0, es[u].0); }
        if j < l - 1 && sat_start(start, es[j].0) { lemma_sorted_pairwise(es, j, l - 1); lemma_sat_start_mono(start, es[j].0, es[l - 1].0); }
    }
}
/// forward prefix iteration: from the ceiling of p while the key has prefix p == exactly the entries with prefix p
pub proof fn lemma_prefix_window_fwd(es: Seq<Ent>, p: Seq<u8>, c: int, b: int)
    requires
        sorted_strict(es), is_ceil(es, p, c), c <= b <= es.len(),
        forall|j: int| c <= j < b ==> p.is_prefix_of(#[trigger] es[j].0),
        b < es.len() ==> !p.is_prefix_of(es[b].0),
    ensures
        forall|j: int| 0 <= j < es.len() ==> ((c <= j < b) <==> p.is_prefix_of(#[trigger] es[j].0)),
{
    assert forall|j: int| 0 <= j < es.len() implies ((c <= j < b) <==> p.is_prefix_of(#[trigger] es[j].0)) by {
        if j < c && p.is_prefix_of(es[j].0) { lemma_prefix_le(p, es[j].0); lemma_lex_antisym(es[j].0, p); lemma_lex_antisym(p, es[j].0); }
        if j >= b && p.is_prefix_of(es[j].0) {
            // es[b] >= p and lacks the prefix, so adv(p) exists and es[b] >= adv(p); es[j] >= es[b]
            if b > c { lemma_sorted_pairwise(es, c, b); lemma_lex_trans2(p, es[c].0, es[b].0); }
            assert(lex_le(p, es[b].0));
            if adv(p) is Some && lex_lt(es[b].0, adv(p)->0) { lemma_adv_tight(p, es[b].0); }
            if adv(p) is None { lemma_adv_tight(p, es[b].0); }
            let np = adv(p)->0;
            lemma_adv_above(p, es[j].0);
            lemma_sorted_pairwise(es, b, j);
            lemma_lex_trans(es[b].0, es[j].0, np);
        }
    }
}
/// reverse prefix iteration: from the last entry below adv(p) (the last entry when adv(p) is None) down while the key has prefix p
pub proof fn lemma_prefix_window_rev(es: Seq<Ent>, p: Seq<u8>, u: int, l: int)
    requires
        sorted_strict(es), is_upper(es, prefix_upper(p), u), 0 <= l <= u + 1,
        forall|j: int| l <= j <= u ==> p.is_prefix_of(#[trigger] es[j].0),
        l > 0 ==> !p.is_prefix_of(es[l - 1].0),
    ensures
        forall|j: int| 0 <= j < es.len() ==> ((l <= j <= u) <==> p.is_prefix_of(#[trigger] es[j].0)),
{
    assert forall|j: int| 0 <= j < es.len() implies ((l <= j <= u) <==> p.is_prefix_of(#[trigger] es[j].0)) by {
        if j > u && p.is_prefix_of(es[j].0) {
            if adv(p) is Some { lemma_adv_above(p, es[j].0); }
        }
        if j < l && p.is_prefix_of(es[j].0) {
            // es[l-1] <= es[u] lies below adv(p) and lacks the prefix, so es[l-1] < p; es[j] <= es[l-1]
            let m = l - 1;
            if m < u { lemma_sorted_pairwise(es, m, u); lemma_sat_end_mono(prefix_upper(p), es[m].0, es[u].0); }
            assert(sat_end(prefix_upper(p), es[m].0));
            if lex_le(p, es[m].0) { lemma_adv_tight(p, es[m].0); }
            lemma_antisym_lt(p, es[m].0);
            lemma_prefix_le(p, es[j].0);
            if j < m { lemma_sorted_pairwise(es, j, m); lemma_lex_trans(es[j].0, es[m].0, p); lemma_lex_trans2(p, es[j].0, p); lemma_lex_irrefl(p); }
        }
    }
}
/// !(a <= b) ==> b < a
pub proof fn lemma_antisym_lt(a: Seq<u8>, b: Seq<u8>)
    ensures !lex_le(a, b) ==> lex_lt(b, a),
{
    lemma_lex_antisym(a, b); lemma_lex_antisym(b, a);
}

} // mod ghost
} // verus!
