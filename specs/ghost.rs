// ===========================================================================
// GHOST LIBRARY — spec functions and lemmas (all proved by Verus, no assume).
// ===========================================================================
verus! {
pub mod ghost {
use vstd::prelude::*;

/// Mathematical LEB128 (little-endian base-128, continuation bit 0x80).
pub open spec fn leb(n: nat) -> Seq<u8>
    decreases n
{
    if n < 128 { seq![n as u8] } else { seq![((n % 128) + 128) as u8] + leb(n / 128) }
}


/// Explicit shape of leb(n) for 32-bit n (what the 5 arms of the encoder write).
pub proof fn lemma_leb32(n: u32)
    ensures
        n < 128 ==> leb(n as nat) == seq![n as u8],
        128 <= n < 16384 ==> leb(n as nat) == seq![((n % 128) + 128) as u8, (n / 128) as u8],
        16384 <= n < 2097152 ==> leb(n as nat) == seq![((n % 128) + 128) as u8, (((n / 128) % 128) + 128) as u8, (n / 128 / 128) as u8],
        2097152 <= n < 268435456 ==> leb(n as nat) == seq![((n % 128) + 128) as u8, (((n / 128) % 128) + 128) as u8, (((n / 128 / 128) % 128) + 128) as u8, (n / 128 / 128 / 128) as u8],
        268435456 <= n ==> leb(n as nat) == seq![((n % 128) + 128) as u8, (((n / 128) % 128) + 128) as u8, (((n / 128 / 128) % 128) + 128) as u8, (((n / 128 / 128 / 128) % 128) + 128) as u8, (n / 128 / 128 / 128 / 128) as u8],
        1 <= leb(n as nat).len() <= 5,
{
    reveal_with_fuel(leb, 5);
    assert(n / 128 / 128 / 128 / 128 < 16) by (bit_vector);
}

pub proof fn lemma_dec1(n: u32, d0: u8) by (bit_vector)
    requires n < 128, d0 == n as u8,
    ensures d0 & 0x80 == 0, (d0 & 0x7f) as u32 == n,
{}
pub proof fn lemma_dec2(n: u32, d0: u8, d1: u8) by (bit_vector)
    requires 128 <= n < 16384, d0 == ((n % 128) + 128) as u8, d1 == (n / 128) as u8,
    ensures d0 & 0x80 != 0, d1 & 0x80 == 0,
        ((d0 & 0x7f) as u32) | (((d1 & 0x7f) as u32) << 7) == n,
{}
pub proof fn lemma_dec3(n: u32, d0: u8, d1: u8, d2: u8) by (bit_vector)
    requires 16384 <= n < 2097152, d0 == ((n % 128) + 128) as u8, d1 == (((n / 128) % 128) + 128) as u8, d2 == (n / 128 / 128) as u8,
    ensures d0 & 0x80 != 0, d1 & 0x80 != 0, d2 & 0x80 == 0,
        ((d0 & 0x7f) as u32) | (((d1 & 0x7f) as u32) << 7) | (((d2 & 0x7f) as u32) << 14) == n,
{}
pub proof fn lemma_dec4(n: u32, d0: u8, d1: u8, d2: u8, d3: u8) by (bit_vector)
    requires 2097152 <= n < 268435456, d0 == ((n % 128) + 128) as u8, d1 == (((n / 128) % 128) + 128) as u8,
        d2 == (((n / 128 / 128) % 128) + 128) as u8, d3 == (n / 128 / 128 / 128) as u8,
    ensures d0 & 0x80 != 0, d1 & 0x80 != 0, d2 & 0x80 != 0, d3 & 0x80 == 0,
        ((d0 & 0x7f) as u32) | (((d1 & 0x7f) as u32) << 7) | (((d2 & 0x7f) as u32) << 14) | (((d3 & 0x7f) as u32) << 21) == n,
{}
pub proof fn lemma_dec5(n: u32, d0: u8, d1: u8, d2: u8, d3: u8, d4: u8) by (bit_vector)
    requires 268435456 <= n, d0 == ((n % 128) + 128) as u8, d1 == (((n / 128) % 128) + 128) as u8,
        d2 == (((n / 128 / 128) % 128) + 128) as u8, d3 == (((n / 128 / 128 / 128) % 128) + 128) as u8, d4 == (n / 128 / 128 / 128 / 128) as u8,
    ensures d0 & 0x80 != 0, d1 & 0x80 != 0, d2 & 0x80 != 0, d3 & 0x80 != 0, d4 & 0x80 == 0,
        ((d0 & 0x7f) as u32) | (((d1 & 0x7f) as u32) << 7) | (((d2 & 0x7f) as u32) << 14) | (((d3 & 0x7f) as u32) << 21) | ((d4 as u32) << 28) == n,
{}


// ---------------------------------------------------------------------------
// entries, framing, payload (C01/C09/C14 block layout, written from the C09 statement)
// ---------------------------------------------------------------------------
pub type Ent = (Seq<u8>, Seq<u8>);

pub open spec fn frame(e: Ent) -> Seq<u8> {
    leb(e.0.len()) + leb(e.1.len()) + e.0 + e.1
}

pub open spec fn payload(es: Seq<Ent>) -> Seq<u8>
    decreases es.len()
{
    if es.len() == 0 { Seq::<u8>::empty() } else { payload(es.drop_last()) + frame(es.last()) }
}

pub open spec fn ent_small(e: Ent) -> bool { e.0.len() <= u32::MAX && e.1.len() <= u32::MAX }

pub open spec fn ents_small(es: Seq<Ent>) -> bool { forall|i: int| 0 <= i < es.len() ==> ent_small(#[trigger] es[i]) }

/// byte offset at which entry i starts in payload(es)
pub open spec fn start_of(es: Seq<Ent>, i: int) -> int { payload(es.subrange(0, i)).len() as int }

pub proof fn lemma_payload_push(es: Seq<Ent>, e: Ent)
    ensures payload(es.push(e)) == payload(es) + frame(e),
{
    assert(es.push(e).drop_last() == es);
}

pub proof fn lemma_payload_prefix_len(es: Seq<Ent>, i: int)
    requires 0 <= i <= es.len(),
    ensures payload(es.subrange(0, i)).len() <= payload(es).len(),
    decreases es.len() - i,
{
    if i < es.len() {
        let p = es.subrange(0, i + 1);
        assert(p.drop_last() == es.subrange(0, i));
        lemma_payload_prefix_len(es, i + 1);
    } else {
        assert(es.subrange(0, i) == es);
    }
}

// ---------------------------------------------------------------------------
// lexicographic byte order (C02/C18 oracle)
// ---------------------------------------------------------------------------
pub open spec fn lex_cmp(a: Seq<u8>, b: Seq<u8>) -> core::cmp::Ordering
    decreases a.len()
{
    if a.len() == 0 && b.len() == 0 { core::cmp::Ordering::Equal }
    else if a.len() == 0 { core::cmp::Ordering::Less }
    else if b.len() == 0 { core::cmp::Ordering::Greater }
    else if a[0] < b[0] { core::cmp::Ordering::Less }
    else if a[0] > b[0] { core::cmp::Ordering::Greater }
    else { lex_cmp(a.drop_first(), b.drop_first()) }
}
pub open spec fn lex_lt(a: Seq<u8>, b: Seq<u8>) -> bool { lex_cmp(a, b) == core::cmp::Ordering::Less }
pub open spec fn lex_le(a: Seq<u8>, b: Seq<u8>) -> bool { lex_cmp(a, b) != core::cmp::Ordering::Greater }

pub proof fn lemma_lex_antisym(a: Seq<u8>, b: Seq<u8>)
    ensures
        lex_cmp(a, b) == core::cmp::Ordering::Less <==> lex_cmp(b, a) == core::cmp::Ordering::Greater,
        lex_cmp(a, b) == core::cmp::Ordering::Equal <==> lex_cmp(b, a) == core::cmp::Ordering::Equal,
    decreases a.len()
{
    if a.len() > 0 && b.len() > 0 && a[0] == b[0] { lemma_lex_antisym(a.drop_first(), b.drop_first()); }
}
pub proof fn lemma_lex_eq(a: Seq<u8>, b: Seq<u8>)
    ensures lex_cmp(a, b) == core::cmp::Ordering::Equal <==> a == b,
    decreases a.len()
{
    if a.len() > 0 && b.len() > 0 && a[0] == b[0] {
        lemma_lex_eq(a.drop_first(), b.drop_first());
        if a.drop_first() == b.drop_first() {
            assert(a =~= seq![a[0]] + a.drop_first());
            assert(b =~= seq![b[0]] + b.drop_first());
        }
    } else if a.len() == 0 && b.len() == 0 {
        assert(a =~= b);
    }
}
pub proof fn lemma_lex_trans(a: Seq<u8>, b: Seq<u8>, c: Seq<u8>)
    requires lex_lt(a, b), lex_le(b, c),
    ensures lex_lt(a, c),
    decreases a.len()
{
    if a.len() > 0 && b.len() > 0 && c.len() > 0 && a[0] == b[0] && b[0] == c[0] {
        lemma_lex_trans(a.drop_first(), b.drop_first(), c.drop_first());
    }
}
pub proof fn lemma_lex_trans2(a: Seq<u8>, b: Seq<u8>, c: Seq<u8>)
    requires lex_le(a, b), lex_lt(b, c),
    ensures lex_lt(a, c),
    decreases a.len()
{
    if a.len() > 0 && b.len() > 0 && c.len() > 0 && a[0] == b[0] && b[0] == c[0] {
        lemma_lex_trans2(a.drop_first(), b.drop_first(), c.drop_first());
    }
}

/// keys strictly ascending (adjacent form, which is what an append-only writer can maintain)
pub open spec fn sorted_strict(es: Seq<Ent>) -> bool {
    forall|i: int| 0 <= i < es.len() - 1 ==> lex_lt(#[trigger] es[i].0, es[i + 1].0)
}

pub proof fn lemma_sorted_pairwise(es: Seq<Ent>, i: int, j: int)
    requires sorted_strict(es), 0 <= i < j < es.len(),
    ensures lex_lt(es[i].0, es[j].0),
    decreases j - i
{
    if j > i + 1 {
        lemma_sorted_pairwise(es, i, j - 1);
        assert(lex_lt(es[j - 1].0, es[j].0));
        lemma_lex_trans(es[i].0, es[j - 1].0, es[j].0);
    }
}

// ---------------------------------------------------------------------------
// fixed-width integers (C09: u64/u32 big-endian in blocks, little-endian in the trailer)
// ---------------------------------------------------------------------------
pub open spec fn be_bytes(x: nat, n: nat) -> Seq<u8>
    decreases n
{
    if n == 0 { Seq::<u8>::empty() } else { be_bytes(x / 256, (n - 1) as nat).push((x % 256) as u8) }
}
pub open spec fn le_bytes(x: nat, n: nat) -> Seq<u8>
    decreases n
{
    if n == 0 { Seq::<u8>::empty() } else { seq![(x % 256) as u8] + le_bytes(x / 256, (n - 1) as nat) }
}
pub open spec fn be64(x: u64) -> Seq<u8> { be_bytes(x as nat, 8) }
pub open spec fn be32(x: u32) -> Seq<u8> { be_bytes(x as nat, 4) }
pub open spec fn le64(x: u64) -> Seq<u8> { le_bytes(x as nat, 8) }
pub open spec fn le32(x: u32) -> Seq<u8> { le_bytes(x as nat, 4) }

pub proof fn lemma_be_len(x: nat, n: nat)
    ensures be_bytes(x, n).len() == n, le_bytes(x, n).len() == n,
    decreases n
{
    if n > 0 { lemma_be_len(x / 256, (n - 1) as nat); }
}

pub open spec fn be64s(xs: Seq<u64>) -> Seq<u8>
    decreases xs.len()
{
    if xs.len() == 0 { Seq::<u8>::empty() } else { be64s(xs.drop_last()) + be64(xs.last()) }
}
pub proof fn lemma_be64s_len(xs: Seq<u64>)
    ensures be64s(xs).len() == 8 * xs.len(),
    decreases xs.len()
{
    if xs.len() > 0 { lemma_be64s_len(xs.drop_last()); lemma_be_len(xs.last() as nat, 8); }
}

/// The offset table of a block holding `es` with one slot per `interval` entries (first slot 0, even when empty).
pub open spec fn footer_len(n: int, interval: int) -> int {
    if n <= 0 { 1 } else { (n - 1) / interval + 1 }
}
pub open spec fn footer_offsets(es: Seq<Ent>, interval: int) -> Seq<u64> {
    Seq::new(footer_len(es.len() as int, interval) as nat, |j: int| start_of(es, j * interval) as u64)
}
/// Uncompressed bytes of a block (C09): entries, offset table (u64 BE), count (u32 BE).
pub open spec fn block_bytes(es: Seq<Ent>, interval: int) -> Seq<u8> {
    payload(es) + be64s(footer_offsets(es, interval)) + be32(footer_len(es.len() as int, interval) as u32)
}


pub open spec fn pow256(n: nat) -> nat decreases n { if n == 0 { 1 } else { 256 * pow256((n - 1) as nat) } }

pub proof fn lemma_le_inj(x: nat, y: nat, n: nat)
    requires x < pow256(n), y < pow256(n), le_bytes(x, n) == le_bytes(y, n),
    ensures x == y,
    decreases n
{
    if n > 0 {
        let a = le_bytes(x, n); let b = le_bytes(y, n);
        assert(a[0] == b[0]);
        assert(a.drop_first() =~= le_bytes(x / 256, (n - 1) as nat));
        assert(b.drop_first() =~= le_bytes(y / 256, (n - 1) as nat));
        assert(x / 256 < pow256((n - 1) as nat)) by (nonlinear_arith) requires x < 256 * pow256((n - 1) as nat);
        assert(y / 256 < pow256((n - 1) as nat)) by (nonlinear_arith) requires y < 256 * pow256((n - 1) as nat);
        lemma_le_inj(x / 256, y / 256, (n - 1) as nat);
        assert((x % 256) as u8 == (y % 256) as u8);
    }
}
pub proof fn lemma_be_inj(x: nat, y: nat, n: nat)
    requires x < pow256(n), y < pow256(n), be_bytes(x, n) == be_bytes(y, n),
    ensures x == y,
    decreases n
{
    if n > 0 {
        let a = be_bytes(x, n); let b = be_bytes(y, n);
        assert(a.last() == b.last());
        assert(a.drop_last() =~= be_bytes(x / 256, (n - 1) as nat));
        assert(b.drop_last() =~= be_bytes(y / 256, (n - 1) as nat));
        assert(x / 256 < pow256((n - 1) as nat)) by (nonlinear_arith) requires x < 256 * pow256((n - 1) as nat);
        assert(y / 256 < pow256((n - 1) as nat)) by (nonlinear_arith) requires y < 256 * pow256((n - 1) as nat);
        lemma_be_inj(x / 256, y / 256, (n - 1) as nat);
        assert((x % 256) as u8 == (y % 256) as u8);
    }
}
pub proof fn lemma_pow256()
    ensures pow256(1) == 256, pow256(4) == 0x1_0000_0000, pow256(8) == 0x1_0000_0000_0000_0000,
{
    reveal_with_fuel(pow256, 9);
}

} // mod ghost
} // verus!
