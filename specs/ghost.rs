// ===========================================================================
// GHOST LIBRARY — spec functions and lemmas (all proved by Verus, no assume).
// ===========================================================================
verus! {
pub mod ghost {
use vstd::prelude::*;

/// Mathematical LEB128 (little-endian base-128, continuation bit 0x80).
pub open spec fn leb(n: nat) -> Seq<u8>
    decreases n
{
    if n < 128 { seq![n as u8] } else { seq![((n % 128) + 128) as u8] + leb(n / 128) }
}


/// Explicit shape of leb(n) for 32-bit n (what the 5 arms of the encoder write).
pub proof fn lemma_leb32(n: u32)
    ensures
        n < 128 ==> leb(n as nat) == seq![n as u8],
        128 <= n < 16384 ==> leb(n as nat) == seq![((n % 128) + 128) as u8, (n / 128) as u8],
        16384 <= n < 2097152 ==> leb(n as nat) == seq![((n % 128) + 128) as u8, (((n / 128) % 128) + 128) as u8, (n / 128 / 128) as u8],
        2097152 <= n < 268435456 ==> leb(n as nat) == seq![((n % 128) + 128) as u8, (((n / 128) % 128) + 128) as u8, (((n / 128 / 128) % 128) + 128) as u8, (n / 128 / 128 / 128) as u8],
        268435456 <= n ==> leb(n as nat) == seq![((n % 128) + 128) as u8, (((n / 128) % 128) + 128) as u8, (((n / 128 / 128) % 128) + 128) as u8, (((n / 128 / 128 / 128) % 128) + 128) as u8, (n / 128 / 128 / 128 / 128) as u8],
        1 <= leb(n as nat).len() <= 5,
{
    reveal_with_fuel(leb, 5);
    assert(n / 128 / 128 / 128 / 128 < 16) by (bit_vector);
}

pub proof fn lemma_dec1(n: u32, d0: u8) by (bit_vector)
    requires n < 128, d0 == n as u8,
    ensures d0 & 0x80 == 0, (d0 & 0x7f) as u32 == n,
{}
pub proof fn lemma_dec2(n: u32, d0: u8, d1: u8) by (bit_vector)
    requires 128 <= n < 16384, d0 == ((n % 128) + 128) as u8, d1 == (n / 128) as u8,
    ensures d0 & 0x80 != 0, d1 & 0x80 == 0,
        ((d0 & 0x7f) as u32) | (((d1 & 0x7f) as u32) << 7) == n,
{}
pub proof fn lemma_dec3(n: u32, d0: u8, d1: u8, d2: u8) by (bit_vector)
    requires 16384 <= n < 2097152, d0 == ((n % 128) + 128) as u8, d1 == (((n / 128) % 128) + 128) as u8, d2 == (n / 128 / 128) as u8,
    ensures d0 & 0x80 != 0, d1 & 0x80 != 0, d2 & 0x80 == 0,
        ((d0 & 0x7f) as u32) | (((d1 & 0x7f) as u32) << 7) | (((d2 & 0x7f) as u32) << 14) == n,
{}
pub proof fn lemma_dec4(n: u32, d0: u8, d1: u8, d2: u8, d3: u8) by (bit_vector)
    requires 2097152 <= n < 268435456, d0 == ((n % 128) + 128) as u8, d1 == (((n / 128) % 128) + 128) as u8,
        d2 == (((n / 128 / 128) % 128) + 128) as u8, d3 == (n / 128 / 128 / 128) as u8,
    ensures d0 & 0x80 != 0, d1 & 0x80 != 0, d2 & 0x80 != 0, d3 & 0x80 == 0,
        ((d0 & 0x7f) as u32) | (((d1 & 0x7f) as u32) << 7) | (((d2 & 0x7f) as u32) << 14) | (((d3 & 0x7f) as u32) << 21) == n,
{}
pub proof fn lemma_dec5(n: u32, d0: u8, d1: u8, d2: u8, d3: u8, d4: u8) by (bit_vector)
    requires 268435456 <= n, d0 == ((n % 128) + 128) as u8, d1 == (((n / 128) % 128) + 128) as u8,
        d2 == (((n / 128 / 128) % 128) + 128) as u8, d3 == (((n / 128 / 128 / 128) % 128) + 128) as u8, d4 == (n / 128 / 128 / 128 / 128) as u8,
    ensures d0 & 0x80 != 0, d1 & 0x80 != 0, d2 & 0x80 != 0, d3 & 0x80 != 0, d4 & 0x80 == 0,
        ((d0 & 0x7f) as u32) | (((d1 & 0x7f) as u32) << 7) | (((d2 & 0x7f) as u32) << 14) | (((d3 & 0x7f) as u32) << 21) | ((d4 as u32) << 28) == n,
{}

} // mod ghost
} // verus!
