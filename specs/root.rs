// crate root (stand-in for src/lib.rs: re-exports only)
use vstd::prelude::*;
