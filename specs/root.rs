// crate root (stand-in for src/lib.rs: re-exports only)
use vstd::prelude::*;
// platform assumption: 64-bit (the pinned test-suite and Kani runs are x86_64)
global size_of usize == 8;
pub use crate::compression::CompressionType;
pub use crate::error::Error;
pub use crate::reader::{Reader, ReaderCursor};
pub type Result<T, U = core::convert::Infallible> = core::result::Result<T, Error<U>>;
/// R-transmute: stand-in for src/lib.rs `transmute_entry_to_static` (lifetime extension only; values unchanged)
#[verifier::external_body]
pub unsafe fn transmute_entry_to_static(key: &[u8], val: &[u8]) -> (r: (&'static [u8], &'static [u8]))
    ensures r.0@ == key@, r.1@ == val@,
{ unimplemented!() }
pub use crate::merge_function::MergeFunction;
pub use crate::writer::Writer;
pub use crate::merger::{Merger, MergerIter};
pub use crate::writer::WriterBuilder;
