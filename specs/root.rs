// crate root (stand-in for src/lib.rs: re-exports only)
use vstd::prelude::*;
// platform assumption: 64-bit (the pinned test-suite and Kani runs are x86_64)
global size_of usize == 8;
pub use crate::compression::CompressionType;
pub use crate::error::Error;
