"""Per-property configuration of the checks (which back ends decide what, trusted base, bounds)."""
import json
import os

HERE = os.path.dirname(os.path.abspath(__file__))
RLIMIT_QUICK = 60
RLIMIT_THOROUGH = 120


def load_lock():
    p = os.path.join(HERE, 'labels.lock')
    return json.load(open(p)) if os.path.exists(p) else {}


TRUSTED_COMMON = [
    'Verus 0.2026.09.13 + Z3 (its bundled version) + rustc 1.98.1 front end',
    'Kani 0.68.0 / CBMC 6.11.0 (for harnesses listed under kani)',
    '/verif/lib/gen.py extractor+injector: the verified text is /repo/src copied at run time; the only textual differences are the rewrite rules of specs/modules.py and injected spec text between /*<<*/ and /*>>*/ markers',
    'specs/prelude.rs: assumed contracts on std / external crates (every item is assume_specification / external_body)',
]
ASSUMPTIONS_COMMON = [
    'machine integers are exact fixed-width integers in both back ends (overflow is an obligation, not assumed away)',
    'termination: decreases clauses are checked by Verus where it sees the loop; Kani proves nothing about termination',
]

PROPS = {
    'C15': dict(
        level='other', level_text='wip', level_note='wip', technique='Verus invariant on Writer (pending block sizes)', kani=[], native=[], witness=[],
        explanation='wip'),
    'C01': dict(
        level='other', level_text='wip', level_note='wip', technique='wip', kani=[], native=[], witness=[],
        explanation='wip'),
    'C18': dict(
        level='proof',
        level_text='Unbounded deductive proof (Verus) on the real BlockWriter::insert with the documented assert! modelled as divergence: whenever insert returns, the block under construction has strictly ascending keys and its bytes are exactly the framed entries; finish() emits exactly those bytes plus the offset table. (Writer-level clauses are added as the Writer contracts are discharged.)',
        level_note='Trusted: Verus/Z3, extractor, the [u8] lexicographic-order axiom (prelude), the R-assert-diverge rewrite (assert!(c) -> if !c { diverge }).',
        technique='Verus representation invariant on the real BlockWriter (sortedness, framing, offset table)',
        kani=[], native=[], witness=[],
        explanation='BlockWriter::wf (closed representation invariant incl. sorted_strict) is required and ensured by every BlockWriter operation',
    ),
    'C14': dict(
        level='proof',
        level_text='Unbounded deductive proof (Verus) that the real varint_encode32 produces exactly mathematical LEB128 and the real varint_decode32 inverts it on any buffer that starts with it, for all 2^32 values; plus a complete (loop-free / constant-bounded) Kani proof of the same round trip with arbitrary continuation bytes. Framing inside blocks (BlockWriter::insert / Block::entry_at) is carried by labelled clauses of those functions.',
        level_note='Trusted: Verus/Z3, Kani/CBMC, the text extractor; no assumed contract is involved in the varint functions themselves.',
        technique='Verus contracts (bit-vector lemmas) on extracted real code + complete Kani harness over all u32',
        kani=[dict(name='c14_varint_roundtrip_all_u32', kind='complete')],
        native=[],
        witness=[],
        trusted=[],
        assumptions=[],
        explanation='varint_encode32 == mathematical LEB128 (Verus, bit-vector lemmas), varint_decode32 inverts every LEB128 prefix (Verus); independently a loop-bounded-by-constant Kani harness over all 2^32 values and arbitrary continuations',
    ),
}
