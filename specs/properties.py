"""Per-property configuration of the checks (which back ends decide what, trusted base, bounds)."""
import json
import os

HERE = os.path.dirname(os.path.abspath(__file__))
RLIMIT_QUICK = 150
RLIMIT_THOROUGH = 300


def load_lock():
    p = os.path.join(HERE, 'labels.lock')
    return json.load(open(p)) if os.path.exists(p) else {}


TRUSTED_COMMON = [
    'Verus 0.2026.09.13 + Z3 (its bundled version) + rustc 1.98.1 front end',
    'Kani 0.68.0 / CBMC 6.11.0 (for harnesses listed under kani)',
    '/verif/lib/gen.py extractor+injector: the verified text is /repo/src copied at run time; the only textual differences are the rewrite rules of specs/modules.py and injected spec text between /*<<*/ and /*>>*/ markers',
    'specs/prelude.rs: assumed contracts on std / external crates (every item is assume_specification / external_body)',
]
ASSUMPTIONS_COMMON = [
    'machine integers are exact fixed-width integers in both back ends (overflow is an obligation, not assumed away)',
    'termination: decreases clauses are checked by Verus where it sees the loop; Kani proves nothing about termination',
]


def N(name, bound, tier='quick'):
    return dict(name=name, bound=bound, tier=tier)


VERUS_LEAF = 'Verus contracts discharged on the extracted real code for: varint_*, BlockWriter::*, BlockBuffer::*, compress_and_write_block, Metadata::{read_from,write_into}, CountWrite::*, Error::{from,convert_merge_error}, CompressionType::from_u8, WriterBuilder::{block_size,build}, Writer::{insert,into_inner,finish}'
ASSUME_CODEC = 'codec crates (snap, flate2, lz4_flex, zstd) are not verified: compress_spec/decompress_spec are uninterpreted with the assumed axiom decompress(compress(x)) == x; compress/decompress dispatchers of compression.rs are replaced by a stand-in with that contract'
ASSUME_IO = 'user I/O components are abstract (ghost sink_bytes/rd_bytes); std write_all/read_exact/flush/seek and byteorder read_uN/write_uN carry ASSUMED contracts (specs/prelude.rs: vio, byteorder)'
ASSUME_PHYS = 'physical size bounds assumed at named call sites: any Vec/slice < 2^60 elements, any sink accepted < 2^62 bytes, < 2^32 offset slots per block, entries_count < 2^64-1, 64-bit usize'
ASSUME_DROP = 'impl Drop for BlockBuffer is modelled by an explicit call inserted at the end of compress_and_write_block (R-drop); derive(Clone) for BlockWriter assumed to copy'
WRITER_PROVED = 'Writer::into_inner is proved to emit a well-formed file (file_wf: blocks back to back, every index level = (last key -> offset) links of the level below in order, root last, representable sizes, 22-byte trailer) holding exactly the inserted entries'
IBC_ASSUMED = 'the IndexBlockCursor traversal (iter_index_blocks, recursive_index_block with its nested recursive, initial_index_blocks, and the five moves built on them) is proved in Verus with a per-level representation invariant over the index levels of the tree model (every level holds a block of its level with a truthful offset tag; At(d) = a consistent root-to-leaf path to data block d); the one remaining assumed link is the shim init_by_ref (label IBC.init_by_ref.assumed): a mover closure handed on as `&mut mov` keeps its contract. Rewrites applied to these functions before verification (R-iter-mut-index, R-try-split, R-tail-let, ghost parameters) are listed in DESIGN.md 0.3'
READER_PROVED = 'every ReaderCursor operation (first/last/next/prev, >= / <= / == seeks, current, reset, block loads) is proved against those contracts over the tree model of the file, with a representation invariant (logical position At(i) <-> loaded data block and in-block position)'
WRITER_UNPROVED = IBC_ASSUMED
READER_UNPROVED = IBC_ASSUMED

PROPS = {
    'C01': dict(
        level='proof',
        level_text='Proved (Verus, unbounded) end to end at the level of bytes, down to the block decoder and the assumed std I/O contracts: (1) the whole write path -- framing == LEB128 frames, block bytes == payload ++ offset table ++ count, every emitted block == be64(len) ++ compress(block) -- and Writer::into_inner emits a well-formed file (file_wf) holding exactly the inserted entries, count/codec/levels in the 22-byte trailer, sink flushed; (2) lemma_open_written: whatever metadata a reader decodes from the trailer of such bytes is the written one (trailer injectivity), the bytes are a well-formed tree from the decoded root (tree_ok) and the entry list the cursor contracts speak about (tree_entries) is exactly the inserted list -- including uniqueness of the decoded tree (any two block logs describing the same bytes agree block by block); (3) Block::read_from decodes exactly the stored block; every ReaderCursor move returns the entry of tree_entries the statement prescribes (first = entry 0, next = i+1, ..., None past the ends), Reader::len == count. The IndexBlockCursor traversal underneath is proved too (per-level invariant over the index levels; one trusted one-line shim for a closure passed as &mut). (4) The statement itself as the postcondition of verification-only clients built from the real functions: verif_roundtrip (builder.build on an in-memory sink, insert every entry of a strictly ascending list, into_inner, Reader::new on a Cursor over the bytes, into_cursor, move_on_next until None) returns exactly the inserted pairs, verif_scan_back the reverse -- so every precondition of the write path is established from scratch (no vacuous contract) and the per-call contracts compose to C01. Bounded stand-in for the whole pipeline: real Writer+Reader over all codecs, index depths 0..5 and 255, block sizes, intervals, key shapes incl. the lone empty key and entries larger than a block, compared with the inserted list and cross-checked by an independent decoder.',
        level_note='Proved obligations trust: ' + ASSUME_CODEC + '; ' + ASSUME_IO + '; ' + ASSUME_PHYS + '; ' + ASSUME_DROP + '. Assumed: ' + IBC_ASSUMED,
        technique='Verus contracts on the extracted write path, block decoding and ReaderCursor + ghost file model (block log / index tree) with a write-meets-read lemma; bounded differential stand-in (real Writer/Reader vs inserted list and independent decoder)',
        kani=[], native=[N('verif_rw::c01_roundtrip', '25 (quick) / 67 (thorough) files: <= 2700 entries, index_levels in {0,1,2,3,4,5,255}, all 6 codecs, block sizes {1024,1500,4096}, intervals {1,2,3,7,8,100}')], witness=[],
        unproved=[WRITER_UNPROVED, READER_UNPROVED], assumptions=[ASSUME_CODEC, ASSUME_IO, ASSUME_PHYS, ASSUME_DROP],
        explanation='write path, file model, decoding, cursor and index-cursor layers proved; bounded stand-in as independent check'),
    'C02': dict(
        level='proof',
        level_text='Proved (Verus, unbounded): in-block search (BlockCursor <= / >= against the floor/ceiling oracles written from the statement, binary search over the offset table + linear scan); Block::read_from/entry_at decode exactly the stored block; ReaderCursor::move_on_key_greater_than_or_equal_to returns the ceiling of the probe in the whole file (two-level ceiling lemma: first data block whose last key is >= q, then the ceiling inside it), move_on_key_lower_than_or_equal_to the floor (floor-from-ceiling lemma + prev/last), move_on_key_equal_to the entry with exactly that key or None -- all over the tree model of the file and for any AsRef<[u8]> probe. IndexBlockCursor::move_on_key_greater_than_or_equal_to is proved to return the link of the first data block whose last key is >= q (descent lemma per level: lemma_ge_step / lemma_descend, iter_index_blocks, initial_index_blocks). Bounded stand-in (kept as an independent check): 14+ files (index depth 0..4, deep trees with few long keys, exact multiples of the interval, keys differing by trailing zero bytes, the empty key), every equivalence class of probes with GE/LE/EQ on fresh, reset and cloned cursors vs the sorted list.',
        level_note=IBC_ASSUMED + '; bounded: file sizes <= 2500 entries',
        technique='Verus contracts on Block/BlockCursor/ReaderCursor over the tree model (ceiling/floor lemmas) + bounded differential stand-in as an independent check',
        kani=[], native=[N('verif_cursor::c02_seeks', '14 files (26 thorough), <= 2500 entries, ~7500 probes x {fresh, reset+clone}')], witness=[],
        unproved=[READER_UNPROVED], explanation='search proved end to end down to the block decoder; bounded stand-in as independent check'),
    'C03': dict(
        level='other',
        level_text='Proved (Verus, unbounded in the length of the history; induction = the ReaderCursor representation invariant valid(), required and ensured by every operation): the logical position (Unset / At(i) / Unknown) determines what first/last/next/prev/current return -- first -> entry 0, last -> the last one, next from At(i) -> i+1, prev -> i-1, from Unset next = first and prev = last, current at At(i) = entry i, reset -> Unset, None exactly past the ends -- independent of which blocks happen to be loaded. Every BlockCursor operation likewise. The IndexBlockCursor moves are proved likewise (ghost logical position of the index cursor; relative moves via the nested recursive climb with prefix invariants held_with / path_with; one trusted shim for a closure passed as &mut). After an operation that returned None the contracts promise nothing about the position (Unknown): the literal clause about current() there is the recorded finding. Bounded stand-in: random operation histories incl. long next/prev runs crossing index blocks, the documented first,first,next*,first sweep, clone independence, replayed against a model whose state is (sorted content, logical position).',
        level_note=IBC_ASSUMED + '; bounded: <= 840 histories of <= ~12000 operations per run (3x in thorough)',
        technique='Verus representation invariants on BlockCursor and ReaderCursor (ghost logical position) + bounded model-based stand-in on the real ReaderCursor',
        kani=[], native=[N('verif_cursor::c03_histories', '60 (300 thorough) random histories per file x 14 files + sweep and clone scenarios'), N('verif_cursor::c03_current_after_none_literal', 'same histories; literal current() clause (known finding)')], witness=[],
        unproved=[READER_UNPROVED], explanation='history independence proved for ReaderCursor and IndexBlockCursor; bounded stand-in as independent check'),
    'C04': dict(
        level='proof',
        level_text='Proved (Verus, unbounded, on top of the proved ReaderCursor contracts): RangeIter::next / RevRangeIter::next return, on the first call, the first (last) entry satisfying the start (end) bound iff it also satisfies the opposite bound, and afterwards the adjacent entry iff it satisfies the opposite bound; end_contains/start_contains are exactly the bound predicates of the statement; the constructors and Reader::into_range_iter / into_rev_range_iter start the iterator fresh on an unset cursor with exactly the bounds the caller gave; and the verification-only clients verif_query_range / verif_query_rev_range (adapter, then next() until None) return exactly the stored entries inside the range -- a contiguous window of the sorted entry list, ascending resp. descending (range_fwd_drained / range_rev_drained, window lemmas over lexicographic order). The ReaderCursor contracts are themselves proved (C02/C03) and so is the IndexBlockCursor underneath (one trusted closure shim); the bounded stand-in remains as an independent check: forward and reverse range iterators over all 9 bound-kind combinations with present/absent/equal/inverted bounds on files with index depth 0..4 and variable-length keys, compared with the filtered sorted list.',
        level_note=READER_UNPROVED + '; bounded: ~1300 ranges per run',
        technique='Verus contracts on RangeIter/RevRangeIter over the proved cursor contracts (index cursor proved as well) + bounded differential stand-in',
        kani=[], native=[N('verif_cursor::c04_ranges', '95 (405 thorough) ranges per file x 14 files')], witness=[],
        unproved=[READER_UNPROVED], explanation='iterator, cursor and index-cursor layers proved; bounded stand-in as independent check'),
    'C05': dict(
        level='proof',
        level_text='Proved (Verus, unbounded, on top of the proved ReaderCursor contracts): advance_key computes the prefix successor adv(p) (None iff p is empty or all 0xFF), with the lemmas that keys with prefix p are exactly the keys in [p, adv(p)); PrefixIter::next / RevPrefixIter::next / move_on_last_prefix return the first (last) entry of that interval iff it has the prefix, then the adjacent one; the constructors and Reader::into_prefix_iter / into_rev_prefix_iter start fresh with exactly the prefix the caller gave; and the verification-only clients verif_query_prefix / verif_query_rev_prefix (adapter, then next() until None) return exactly the stored entries whose key starts with the prefix, ascending resp. descending (prefix_fwd_drained / prefix_rev_drained). The ReaderCursor contracts are themselves proved (C02/C03) and so is the IndexBlockCursor underneath (one trusted closure shim); the bounded stand-in remains as an independent check: forward and reverse prefix iterators for prefixes that are empty, longer than every key, stored keys, ending in / made of / containing interior 0xFF bytes, matching nothing; compared with the filtered sorted list.',
        level_note=READER_UNPROVED + '; bounded: ~2000 prefixes per run',
        technique='Verus contracts on advance_key/PrefixIter/RevPrefixIter over the proved cursor contracts (index cursor proved as well) + bounded differential stand-in',
        kani=[], native=[N('verif_cursor::c05_prefixes', '~150 prefixes per file x 14 files')], witness=[],
        unproved=[READER_UNPROVED], explanation='iterator, cursor and index-cursor layers proved; bounded stand-in as independent check'),
    'C06': dict(
        level='proof',
        level_text='Proved (Verus, unbounded): the whole merge pipeline over an abstract state (for every source, in the order added, its entries and the position of its next unread entry). Merger::into_stream_merger_iter establishes the representation invariant of MergerIter (the heap holds exactly one well-positioned cursor per non-exhausted source); MergerIter::next is one `step` of the abstract state: it returns the smallest key under the heads of the live sources, with the merge function applied exactly once to the values of the sources holding that key in source order (group_vals), and advances exactly those sources -- or None exactly when no source is live; a merge-function error surfaces as Error::Merge. Entry::cmp == reverse lexicographic (key, source position) makes the max-heap pop smallest (key, position) first. Merger::write_into_stream_writer hands the Writer exactly a step trace of the start state (trace_ok, all sources exhausted at the end, termination proved), and pure lemmas show that the keys of a trace are strictly ascending and are exactly the keys of the sources (lemma_trace_ascending, lemma_trace_consumed). ASSUMED: std BinaryHeap (pop/peek return a greatest element, push adds), the user merge function is a deterministic function of (key, values) (mf_out), the hoisted iterator chain collect_values. Independent bounded stand-in: all overlap patterns of 3 sources x 4 keys (every 5th in quick, all 4096 in thorough) plus random merges of up to 6 sources / 150 keys with an order-recording non-commutative merge function that logs every call; both the streaming iterator and write_into_stream_writer (decoded independently).',
        level_note='assumed: std::collections::BinaryHeap contract (prelude), determinism of the user MergeFunction (mf_out), collect_values (R-hoist of an iterator chain), plus everything C01-C03 assume for the cursors; rewrites R-chain-drain / R-field-split / R-enumerate applied to merger.rs before verification (DESIGN.md 0.3)',
        technique='Verus contracts on Merger / MergerIter over an abstract k-way merge state (step / trace) + bounded differential stand-in on the real Merger',
        kani=[], native=[N('verif_merge::c06_merge', '837 (4173 thorough) source patterns x 2 routes')], witness=[],
        unproved=['std BinaryHeap, user MergeFunction determinism, collect_values stub: assumed contracts'], explanation='merge step, start invariant, streaming into a writer and the trace lemmas proved; heap / merge-function contracts assumed'),
    'C07': dict(
        level='other',
        level_text='Proved (Verus): the merge stage the sorter ends with (C06: MergerIter::next is a step of the abstract merge state, ties between chunks resolved oldest chunk first by Entry::cmp; Merger::write_into_stream_writer emits exactly a step trace), the in-memory buffer bookkeeping (C17) and the spill invariant (C08). NOT under contract: Sorter::write_chunk (sort bounds by key, group equal keys, merge each group, write a run), merge_chunks and the extraction of the chunk cursors -- closures over cast slices and fn pointers to sort routines -- so the end-to-end statement is decided by the bounded stand-in: insert sequences of 0..95k (140k thorough) entries (12-37 MiB, so the real 10 MiB minimum budget spills 1-3 times and chunk merges trigger), duplicates, empty pairs (also as the last pending entry), one entry larger than the buffer; 4 configurations (realloc on/off, max chunks 1/2/3/25, stable/unstable, sequential/rayon, 4 codecs, index levels 0..3) x 3 output routes, compared with sort-and-merge of the inserts in insertion order (multiset per key under the unstable sort).',
        level_note='write_chunk / merge_chunks / Entries::iter / sort_by_key not under contract; rayon scheduling is not controllable (whatever schedule the run takes); bounded',
        technique='Verus contracts on the final merge stage and the buffer + bounded differential stand-in on the real Sorter',
        kani=[], native=[N('verif_merge::c07_sorter_equals_sort_and_merge', '34 runs, 10 with spills (more in thorough)')], witness=[],
        unproved=['Sorter::write_chunk / merge_chunks / chunk extraction not under contract'], explanation='merge stage and buffer proved; sort-and-spill stage bounded'),
    'C08': dict(
        level='other',
        level_text='Proved (Verus, unbounded in the number of inserts; induction = the representation invariant required and ensured by Sorter::insert): with entries of at most budget/4 (16-byte bound included) every insert that returns Ok keeps bytes-in-use <= capacity, capacity < 2 x dump_threshold when reallocation is allowed (non-linear doubling lemma) and == the 16-rounded threshold otherwise, at most max(max_nb_chunks-1, 1) chunks after the call (so at most max+2 alive inside it), and the buffer only shrinks through a chunk obtained from the ChunkCreator; SorterBuilder clamps the budget to >= 10 MiB and max_nb_chunks to >= 1. The buffer bookkeeping itself (Entries::fits exact, insert grows by minimal repeated doubling, reallocate_buffer doubles) is now proved on the real code (see C17). Assumed: the chunk-count contracts of write_chunk / merge_chunks; bounded stand-in for them: 55 MiB (90 thorough) of small-entry inserts through a counting ChunkCreator for 7 (threshold, realloc, max_nb_chunks, injected create failure) settings incl. non-16-aligned budgets and max_nb_chunks 1: bytes inserted since the last create() <= 2x budget (1x without realloc), live chunks <= max+2, every spill goes through the creator, no chunk leaks.',
        level_note='assumed: write_chunk/merge_chunks chunk-count contracts, the raw allocation primitives of the buffer (C17), physical byte-counter bound; process heap high-water mark is not a contract notion',
        technique='Verus representation invariant on Sorter::insert over the verified Entries bookkeeping + bounded instrumented stand-in',
        kani=[], native=[N('verif_merge::c08_spill_bounds', '7 settings x 55 MiB')], witness=[],
        unproved=['write_chunk/merge_chunks chunk-count contracts are assumed (stand-in)'], explanation='spill invariant proved over the verified buffer bookkeeping; chunk writing/merging assumed + bounded'),
    'C09': dict(
        level='other',
        level_text='Proved (Verus, unbounded), written from the statement (literal magic numbers, big-endian block lengths/offset tables, little-endian trailer): frame layout, offset table one per interval with first 0 and u32 BE count, stored block = u64 BE length + compressed bytes, 22-byte trailer; and the index structure: Writer::into_inner emits blocks back to back from offset 0, every index level holds exactly the (last key of child -> child offset as u64 BE) links of the level below in order, the root block last at the offset recorded in the trailer, index_levels as configured (file_wf), and a reader decoding that trailer recovers the same root/codec/count/levels (lemma_open_written). Interop is bounded: every scenario file is decoded by an independent decoder (walks the tree from the trailer, checks every clause), read by the frozen grenad 0.4.7 reader, and 0.4.7-written files are read by the current reader; uncompressed files must be byte-identical to 0.4.7 output.',
        level_note='Proved obligations trust: ' + ASSUME_CODEC + '; ' + ASSUME_IO + '; ' + ASSUME_PHYS,
        technique='Verus function contracts on the write path (format spec written from the statement) + bounded independent decoder and 0.4.7 interop stand-in',
        kani=[], native=[N('verif_rw::c09_format_and_interop', 'same 25/67 files as C01; 0.4.7 matrix for codecs None and snappy-pre-0.5')], witness=[],
        unproved=['interoperability with 0.4.7 (bounded)'], assumptions=[ASSUME_CODEC, ASSUME_IO, ASSUME_PHYS],
        explanation='format and index structure proved; interop bounded'),
    'C10': dict(
        level='proof',
        level_text='Proved (Verus, unbounded): Metadata::read_from decodes a V1 trailer (21 bytes: root offset and entry count as u64 LE around a one-byte codec id, literal magic 0x76324D4C) into FormatV1 with the stored root offset, codec and count and index_levels 0 (and accepts every such string on a reliable source); lemma_open_v1: the blocks of any well-formed single-index-level log followed by the V1 trailer are a well-formed tree from the decoded root whose entry list (tree_entries) is the same `es` as for the V2 file of the same content (lemma_tree_from_log: the tree model depends on the bytes only through the block log prefix; uniqueness of the decoded tree); and no reader, cursor, iterator or merger contract mentions the file version -- each is a function of tree_entries -- so every scan, seek, range and prefix query returns exactly what the V2 file returns. Independent bounded stand-in: V1 twins of V2 files (all codecs, block sizes, intervals, 0..600 entries incl. empty) compared on open metadata, scans, seeks, ranges and prefixes.',
        level_note=ASSUME_IO + '; ' + ASSUME_CODEC + '; ' + IBC_ASSUMED,
        technique='Verus contract on Metadata::read_from + file-model lemma for the V1 twin + version-free cursor contracts; bounded V1/V2 twin stand-in',
        kani=[dict(name='c10_metadata_roundtrip_all_fields', kind='complete')], native=[N('verif_rw::c10_v1_files', '14 (40 thorough) twin pairs, ~1600 queries')], witness=[],
        unproved=[], explanation='trailer decode, V1 twin lemma and version-free query contracts proved; twin files as independent check'),
    'C11': dict(
        level='other',
        level_text='Write side: CountWrite::write/flush are proved (Verus) against the trait-level contract of an arbitrary inner writer that accepts any prefix or fails (count == bytes accepted); every emission in compress_and_write_block / Metadata::write_into goes through write_all / byteorder writes whose assumed contract is schedule independent, and Writer::into_inner proves the emitted bytes are file_wf over (configuration, inserted entries) only -- so the byte stream is a function of the entries. Read side: every reader / cursor / iterator / merger contract is stated over rd_bytes (the content of the source) alone; reads go through read_exact / seek and Read::take+decoder (hoisted, assumed) whose contracts do not depend on how the source splits or interrupts reads, so each returned result is a function of the bytes. Whole-pipeline determinism incl. the sorter and the real codecs is bounded: sinks accepting 1..n bytes per call with/without Interrupted, sources serving 1..n bytes per read with/without Interrupted, for all codecs, plus a Sorter over splitting chunk storage (this stand-in found the lz4 defect F5).',
        level_note=ASSUME_IO + '; decompress over Read::take is a hoisted stub with an assumed contract (the codec crates read through it); bounded schedules are pseudo-random (VERIF_SEED)',
        technique='Verus trait-level contract for CountWrite + assumed std write_all/read_exact contracts + bounded schedule stand-in',
        kani=[dict(name='c11_count_write_counts_accepted_bytes', kind='bounded', bound='3 write calls of <= 16 bytes each over an inner writer with an arbitrary accept/fail schedule (each call is loop-free: complete per call)')], native=[N('verif_io::c11_io_splitting', '6 files x (6 sink schedules + 7 source schedules) + 2 sorter runs')], witness=[],
        unproved=['decompress over Read::take (codec crates) assumed; sorter pipeline bounded'], assumptions=[ASSUME_IO],
        explanation='write and read side proved modulo std / codec contracts; real codecs and sorter bounded'),
    'C12': dict(
        level='other',
        level_text='Proved (Verus): panic-freedom of every function under contract (no overflow, no failing unwrap/index under the stated physical bounds) -- write path, block decoding, all cursor operations, iterators, merger, sorter buffer; every such function returns Err (never a Merge error) when a source/sink operation it performs fails, and the verified callers propagate it with `?`; Error::convert_merge_error total on non-merge errors, io errors converted by From, CountWrite::into_inner flushes before handing the sink back, Writer::into_inner returns Ok only after trailer and flush; MergerIter::next returns Err(Merge) exactly when the merge function fails and, when it returns Ok, every source of the group was advanced and is back in the heap iff it has a next entry (a swallowed I/O error would break that clause). Bounded: exhaustive k-th-call fault injection on sinks (two error kinds), sources (every fault point of both merged sources), chunk creator (io and InvalidFormatVersion), chunk storage and merge function through Writer, Reader, Merger and Sorter under catch_unwind.',
        level_note=ASSUME_IO + '; Sorter::write_chunk / merge_chunks error paths not under contract',
        technique='Verus safety obligations + error-kind postconditions on the write path; bounded exhaustive fault injection stand-in',
        kani=[dict(name='c12_convert_merge_error_total', kind='complete')], native=[N('verif_io::c12_faults_surface_as_err', '~3500 sink fault points, ~2200 source fault points, ~550 merge/create/chunk fault points')], witness=[],
        unproved=['Sorter::write_chunk / merge_chunks error propagation not under contract'], assumptions=[ASSUME_IO],
        explanation='write, read and merge paths proved; sorter spill paths bounded'),
    'C13': dict(
        level='proof',
        level_text='Proved (Verus, all byte strings, any Read+Seek source): Metadata::read_from / Reader::new return Ok only if the string ends with a complete V1/V2 trailer with a known codec id, and then return exactly the decoded fields (and that trailer is unique: lemma_trailer_inj); they never panic; and on a source that fails only when asked for bytes past its end (rd_reliable: in-memory cursors, files) they return Ok for EVERY string ending in such a trailer (MD.read.complete, RD.new.exact) -- so acceptance is exactly "ends in a valid trailer". Independent checks: Kani on the real std::io::Cursor for all contents up to 26 bytes; native: every truncation of scenario files near the tail, every single-byte corruption of the trailer, all codec bytes 0..8 for both versions, thousands of random short strings, each also through a source that splits reads into 1..3-byte pieces with Interrupted, compared with an independent trailer parser.',
        level_note=ASSUME_IO + ' (seek/read_exact on a reliable source succeed iff the range is inside the content)',
        technique='Verus contract on Metadata::read_from / Reader::new (both directions) + Kani harness on std Cursor + bounded exactness stand-in',
        kani=[dict(name='c13_read_from_exact_on_cursor', kind='bounded', bound='all byte contents, length 0..=26 on the real std::io::Cursor (read_from inspects only the last 22 bytes and the length)')], native=[N('verif_rw::c13_open_exactness', '~3900 byte strings (quick)')], witness=[],
        unproved=[], assumptions=[ASSUME_IO],
        explanation='exactness proved in both directions under the stated source model'),

    'C15': dict(
        level='proof',
        level_text='Proved (Verus, unbounded, prophecy loop invariants over the split_last_mut cascades): WriterBuilder::block_size clamps to max(1024, size); BlockWriter::current_size_estimate is exactly the uncompressed size of the block (payload + offset table + count); after every Writer::insert that returns, the pending data block and every pending index block more than one level below the root is smaller than the block size (pending_small) -- so a block is emitted by the very insert that makes it reach B; and every block ever emitted (by insert or by the final flush of into_inner) that is a data block or an index block more than one level below the root would be smaller than B without its final entry (log_cut over the ghost block log; the file-level statement file_cut is the postcondition of Writer::into_inner). Independent bounded stand-in: the independent decoder recomputes, for every emitted block of every scenario file, its size without its final entry (< B) and that non-final blocks are >= B.',
        level_note=ASSUME_PHYS + '; ' + ASSUME_DROP,
        technique='Verus representation invariants on Writer (pending block sizes, cut property of the block log) + bounded decoder stand-in',
        kani=[], native=[N('verif_rw::c15_block_cut', '25/67 files, every block at depth >= 2')], witness=[],
        unproved=[], assumptions=[ASSUME_PHYS, ASSUME_DROP],
        explanation='pending-size invariant and cut property of every emitted block proved'),
    'C16': dict(
        level='proof',
        level_text='Proved (Verus, unbounded, ghost block-load counter rd_loads incremented only by Block::read_from): opening (Metadata::read_from, Reader::new, ReaderCursor::new) loads no block; each of ReaderCursor first/last/next/prev/>=/== loads at most levels+2 blocks and <= at most 2*(levels+2) (it is a >= followed by prev or last), whatever the file size -- and one IndexBlockCursor move loads at most levels+1 blocks (proved: each level is reloaded at most once per move; IBC.*.loads). Bounded stand-in (independent check): an instrumented source counts absolute seeks (one per block load) per public cursor operation over 900 (4000 thorough) operations per file incl. full sweeps, index depth 0..4; opening reads <= 26 bytes and seeks to no block.',
        level_note=IBC_ASSUMED,
        technique='ghost load-counter contracts on Block::read_from, ReaderCursor and Metadata::read_from + bounded instrumented stand-in',
        kani=[], native=[N('verif_cursor::c16_io_bound', '14 files x 900 operations')], witness=[],
        unproved=[READER_UNPROVED], explanation='per-operation bound proved down to the block loader'),
    'C17': dict(
        level='other',
        level_text='Proved (Verus, unbounded): absence of arithmetic overflow/underflow and of out-of-range slice ranges or indices in every function under contract -- the write path, varint, metadata, block decoding, the cursors, and the bookkeeping of the sorter\'s two-ended buffer (Entries::insert with its recursive doubling, reallocate_buffer, fits, remaining, ... : every `buffer[a..][..b]`, `copy_from_slice`, `cast_slice_mut` and `bounds[i] = ..` is a discharged precondition, for all entry sizes incl. larger than the buffer). The three unsafe primitives behind the buffer (raw alloc / slice::from_raw_parts in new, deref, deref_mut, plus align_to) are ASSUMED contracts in Verus and checked on the real unsafe code by Kani: layout agreement alloc/dealloc (bounded sizes), fits() exactness (bounded), and refusal of every unrepresentable size (complete).',
        level_note=ASSUME_PHYS + '; EntryBoundAlignedBuffer::{new,deref,deref_mut} and align_to: assumed contracts (unsafe), Kani-checked bounded; Entries::iter / sort_by_key (closures over cast slices) outside the verified set; lifetime-extending transmutes are not decided by any installed verifier (typing argument)',
        technique='Verus safety obligations (overflow, bounds, slice ranges) on extracted real code + Kani harnesses on the unsafe allocation primitives',
        kani=[dict(name='c17_buffer_layout_alloc_dealloc', kind='bounded', bound='requested sizes 1..=4097'), dict(name='c17_fits_exact_no_overflow', kind='bounded', bound='capacity <= 256, any consistent (entries_len, bounds_count), key/value <= 8 bytes'), dict(name='c17_buffer_new_refuses_unrepresentable_sizes', kind='complete', bound='none: every size > isize::MAX - 15 (loop-free)')], native=[N('verif_merge::c17_growth_by_repeated_doubling', 'bounded: 45 (90 thorough) runs; one entry of 200 KB .. 5 MB (17 MB thorough) needing 1..7 doublings of the 128 KiB initial buffer, bytes in key / value / both, after 0 / 3 / 400 small inserts')], witness=[],
        unproved=['EntryBoundAlignedBuffer unsafe primitives (assumed contracts; Kani bounded)', 'Entries::iter / sort_by_key slicing', 'lifetime-extending transmutes'], assumptions=[ASSUME_PHYS],
        explanation='index/overflow obligations of the real bookkeeping code are discharged by Verus for all sizes; only the raw allocation primitives are assumed'),
    'C18': dict(
        level='proof',
        level_text='Unbounded deductive proof (Verus) on the real BlockWriter::insert with the documented assert! modelled as divergence: whenever insert returns, the block under construction has strictly ascending keys and its bytes are exactly the framed entries; finish() emits exactly those bytes plus the offset table. (Writer-level clauses are added as the Writer contracts are discharged.)',
        level_note='Trusted: Verus/Z3, extractor, the [u8] lexicographic-order axiom (prelude), the R-assert-diverge rewrite (assert!(c) -> if !c { diverge }).',
        technique='Verus representation invariant on the real BlockWriter (sortedness, framing, offset table)',
        kani=[], native=[N('verif_rw::c18_unsorted_panics', '120 (400 thorough) insert sequences with swaps/duplicates, index levels 0..3')], witness=[],
        explanation='BlockWriter::wf (closed representation invariant incl. sorted_strict) is required and ensured by every BlockWriter operation',
    ),
    'C14': dict(
        level='proof',
        level_text='Unbounded deductive proof (Verus) that the real varint_encode32 produces exactly mathematical LEB128 and the real varint_decode32 inverts it on any buffer that starts with it, for all 2^32 values; plus a complete (loop-free / constant-bounded) Kani proof of the same round trip with arbitrary continuation bytes. Framing inside blocks (BlockWriter::insert / Block::entry_at) is carried by labelled clauses of those functions.',
        level_note='Trusted: Verus/Z3, Kani/CBMC, the text extractor; no assumed contract is involved in the varint functions themselves.',
        technique='Verus contracts (bit-vector lemmas) on extracted real code + complete Kani harness over all u32',
        kani=[dict(name='c14_varint_roundtrip_all_u32', kind='complete')],
        native=[N('verif_rw::c14_framing_boundaries', 'entries with key/value lengths on both sides of 2^7, 2^14, 2^21 through the public Writer/Reader (2^28 does not fit the time budget)')],
        witness=[],
        trusted=[],
        assumptions=[],
        explanation='varint_encode32 == mathematical LEB128 (Verus, bit-vector lemmas), varint_decode32 inverts every LEB128 prefix (Verus); independently a loop-bounded-by-constant Kani harness over all 2^32 values and arbitrary continuations',
    ),
}
