# Which source files are extracted, in which order, and the rewrite table (DESIGN.md §4.1).
HDR = 'use vstd::prelude::*;\nuse crate::ghost::*;\n'
MODULES = [
    dict(name='varint', file='varint.rs', header=HDR, rewrites=[]),
    dict(name='block_writer', file='block_writer.rs', header=HDR, rewrites=[
        dict(name='R-assert-diverge', kind='assert_diverge', count='+'),
        dict(name='R-hoist:extend-offsets', pat='self.buffer.extend(self.index_offsets.iter().copied().flat_map(u64::to_be_bytes));',
             rep='crate::vstubs::extend_be64s(&mut self.buffer, &self.index_offsets);'),
        dict(name='R-bytes:u32', kind='re', pat=r'\bindex_offsets_count\.to_(be|le)_bytes\(\)', rep=r'crate::vstubs::u32_to_\1_bytes(index_offsets_count)'),
        dict(name='R-exec-const', pat='const DEFAULT_INDEX_KEY_INTERVAL: NonZeroUsize =', rep='exec const DEFAULT_INDEX_KEY_INTERVAL: NonZeroUsize ='),
        dict(name='R-pub-field', pat="    block_builder: &'a mut BlockWriter,", rep="    pub block_builder: &'a mut BlockWriter,"),
        dict(name='R-drop', pat="impl Drop for BlockBuffer<'_> {\n    fn drop(&mut self) {", rep="impl BlockBuffer<'_> {\n    pub fn verif_drop(&mut self) {"),
    ]),
]
