# Which source files are extracted, in which order, and the rewrite table (DESIGN.md §4.1).
HDR = 'use vstd::prelude::*;\nuse crate::ghost::*;\n'
HDR_IO = HDR + 'use crate::vio::*;\nbroadcast use crate::error::axiom_qmark_io;\n'
MODULES = [
    dict(name='error', file='error.rs', header=HDR + 'use crate::vio::*;\n', rewrites=[
        dict(name='drop:Display', kind='drop_item', pat=r'^impl<U: fmt::Display> fmt::Display for Error<U>', count=1),
        dict(name='drop:StdError', kind='drop_item', pat=r'^impl<U: fmt::Display \+ fmt::Debug> error::Error for Error<U>', count=1),
        dict(name='R-derive:Debug', pat='#[derive(Debug)]\npub enum Error', rep='pub enum Error'),
    ]),
    dict(name='compression', file='compression.rs', header=HDR_IO, rewrites=[
        dict(name='drop:FromStr', kind='drop_item', pat=r'^impl FromStr for CompressionType', count=1),
        dict(name='drop:Display', kind='drop_item', pat=r'^impl fmt::Display for InvalidCompressionType', count=1),
        dict(name='drop:StdError', kind='drop_item', pat=r'^impl Error for InvalidCompressionType', count=1),
        dict(name='drop:codecs', kind='drop_item', pat=r'^(#\[[^\n]*\]\s*)*fn (zlib|snappy|snappy_pre_05|zstd|lz4)_(de)?compress', count=20),
        dict(name='drop:decompress', kind='drop_item', pat=r'^pub fn decompress<R>', count=1),
        dict(name='drop:compress', kind='drop_item', pat=r'^pub fn compress\(', count=1),
        dict(name='R-use', pat='use std::error::Error;\nuse std::str::FromStr;\nuse std::{fmt, io};', rep='use std::io;'),
    ]),
    dict(name='count_write', file='count_write.rs', header=HDR_IO, rewrites=[
        dict(name='R-mutself', kind='mutself', fn='into_inner', count=1),
    ]),
    dict(name='metadata', file='metadata.rs', header=HDR_IO, rewrites=[
        dict(name='R-path:byteorder', pat='use byteorder::', rep='use crate::byteorder::'),
        dict(name='R-byval-handle:read_from', pat='pub(crate) fn read_from<R: Read + Seek>(mut reader: R)', rep='pub(crate) fn read_from<R: Read + Seek>(reader: &mut R)'),
        dict(name='R-byval-handle:write_into', pat='pub(crate) fn write_into<W: Write>(&self, mut writer: W)', rep='pub(crate) fn write_into<W: Write>(&self, writer: &mut W)'),
    ]),
    dict(name='writer', file='writer.rs', header=HDR_IO, rewrites=[
        dict(name='R-path:byteorder', pat='use byteorder::', rep='use crate::byteorder::'),
        dict(name='R-mutself', kind='mutself', fn='into_inner', count=1),
        dict(name='R-byval-handle:cawb', pat='fn compress_and_write_block<W: io::Write>(\n    mut writer: W,', rep='fn compress_and_write_block<W: io::Write>(\n    writer: &mut W,'),
        dict(name='R-bytes:u64', kind='re', pat=r'\b(offset|index_block_offset)\.to_(be|le)_bytes\(\)', rep=r'crate::vstubs::u64_to_\2_bytes(\1)', count=4),
        dict(name='R-drop:explicit', pat='    let buffer = block_writer.finish();\n', rep='    let mut buffer_bb = block_writer.finish();\n    let buffer = &buffer_bb;\n'),
        # R-tail-let: name the temporary so that a proof hint can mention it (evaluation order unchanged)
        dict(name='R-tail-let:memory', pat='        self.build(Vec::new())\n', rep='        let sink0 = Vec::new();\n        self.build(sink0)\n'),
    ]),
    dict(name='block', file='block.rs', header=HDR_IO, rewrites=[
        dict(name='R-path:byteorder', pat='use byteorder::', rep='use crate::byteorder::'),
        dict(name='R-use:decompress', pat='use crate::compression::decompress;\n', rep=''),
        dict(name='R-borrow-mono', pat='impl<B: Borrow<Block>> BlockCursor<B> {', rep='impl BlockCursor<Block> {'),
        dict(name='R-borrow-mono:calls', pat='self.block.borrow()', rep='(&self.block)', count='+'),
        dict(name='R-use:Borrow', pat='use std::borrow::Borrow;\n', rep=''),
        dict(name='R-byval-handle:read_from', pat='pub fn read_from<R: io::Read>(&mut self, mut reader: R)', rep='pub fn read_from<R: io::Read>(&mut self, reader: &mut R)'),
        dict(name='R-hoist:decompress-take', pat='decompress(self.compression_type, reader.take(block_len), &mut self.buffer)?;',
             rep='crate::vstubs::decompress_take(self.compression_type, reader, block_len, &mut self.buffer)?;'),
        dict(name='R-bytes:u32-from', kind='re', pat=r'index_size_bytes\.try_into\(\)\.map\(u32::from_(be|le)_bytes\)\.unwrap\(\)', rep=r'crate::vstubs::u32_from_\1_bytes(index_size_bytes)'),
        dict(name='R-hoist:footer-iter', kind='re', pat=r'let index_chunk_iter = index_bytes\s*\.chunks_exact\(size_of::<u64>\(\)\)\s*\.filter_map\(\|s\| TryInto::try_into\(s\)\.ok\(\)\)\s*\.map\(u64::from_(be|le)_bytes\);\n(\s*)self\.index_offsets\.clear\(\);\n\s*self\.index_offsets\.extend\(index_chunk_iter\);',
             rep=r'self.index_offsets.clear();\n\2crate::vstubs::extend_u64s_from_\1(&mut self.index_offsets, index_bytes);'),
        dict(name='R-closure-pat:kv', pat='.map(|(k, v, _)| (k, v))', rep='.map(|e: (&[u8], &[u8], usize)| -> (r: (&[u8], &[u8])) ensures r.0@ == e.0@, r.1@ == e.1@ { (e.0, e.1) })'),
        dict(name='R-closure-pat:k', pat='.map(|(k, _, _)| k)', rep='.map(|e: (&[u8], &[u8], usize)| -> (r: &[u8]) ensures r@ == e.0@ { e.0 })'),
        dict(name='R-closure-pat:key', pat='.map(|(key, _, _)| key)', rep='.map(|e: (&[u8], &[u8], usize)| -> (r: &[u8]) ensures r@ == e.0@ { e.0 })'),
        dict(name='R-closure-spec:current', pat='.and_then(|off| (&self.block).entry_at(off)', rep='.and_then(|off: usize| -> (r: Option<(&[u8], &[u8])>) requires self.block.valid_off(off as int) ensures view_of(r) == ent_at(self.block.ents(), self.block.idx_of(off as int)) { (&self.block).entry_at(off)'),
        dict(name='R-closure-spec:current-close', pat='{ (e.0, e.1) }))', rep='{ (e.0, e.1) }) })'),
        dict(name='R-closure-spec:off', pat='.map(|off| *off as usize)', rep='.map(|off: &u64| -> (r: usize) ensures r == *off as usize { *off as usize })', count=2),
        dict(name='R-closure-spec:next', pat='.map(|off| (&self.block).entry_at(off))', rep='.map(|off: usize| -> (r: Option<(&[u8], &[u8], usize)>) requires call_requires(Block::entry_at, (&self.block, off)) ensures call_ensures(Block::entry_at, (&self.block, off), r) { (&self.block).entry_at(off) })'),
        dict(name='R-closure-spec:bsearch-key', kind='re', pat=r'\|off\| \{\s*\(&self\.block\)\.entry_at\(\*off as usize\)', rep='|off: &u64| -> (r: Option<&[u8]>) requires self.block.valid_off(*off as int) ensures (r is Some <==> self.block.idx_of(*off as int) < self.block.ents().len()) && (r is Some ==> r->0@ == self.block.ents()[self.block.idx_of(*off as int)].0) { (&self.block).entry_at(*off as usize)'),
        dict(name='R-closure-spec:get', pat='.and_then(|i| offsets.get(i))', rep='.and_then(|i: usize| -> (r: Option<&u64>) ensures r == (if (i as int) < offsets@.len() { Some(&offsets@[i as int]) } else { None::<&u64> }) { offsets.get(i) })'),
        dict(name='R-closure-spec:id', pat='.unwrap_or_else(|x| x)', rep='.unwrap_or_else(|x: usize| -> (r: usize) ensures r == x { x })'),
        dict(name='R-transmute', kind='re', pat=r"let (k|v): &'static _ = unsafe \{ mem::transmute\((k|v)\) \};", rep=r"let \1: &'static [u8] = crate::vstubs::extend_lifetime(\2);", count=2),
    ]),
    dict(name='reader', file='reader/mod.rs', header=HDR_IO, rewrites=[
        dict(name='R-mods', pat='mod prefix_iter;\nmod range_iter;\nmod reader_cursor;\n', rep=''),
        dict(name='R-closure-spec:new', pat='.map(|metadata| Reader { metadata, reader })', rep='.map(|metadata: Metadata| -> (r: Reader<R>) ensures r.metadata == metadata && r.reader == reader { Reader { metadata, reader } })'),
        # the four `into_*_iter` adapters: the closure passed to Result::map gets its result named and the constructor's contract restated
        dict(name='R-closure-spec:into-prefix', pat='.map(|cursor| PrefixIter::new(cursor, prefix))',
             rep='.map(|cursor: ReaderCursor<R>| -> (it: PrefixIter<R>) ensures it.cur() == cursor && it.pfx() == prefix@ && it.fresh() { PrefixIter::new(cursor, prefix) })'),
        dict(name='R-closure-spec:into-rev-prefix', pat='.map(|cursor| RevPrefixIter::new(cursor, prefix))',
             rep='.map(|cursor: ReaderCursor<R>| -> (it: RevPrefixIter<R>) ensures it.cur() == cursor && it.pfx() == prefix@ && it.fresh() { RevPrefixIter::new(cursor, prefix) })'),
        dict(name='R-closure-spec:into-range', pat='.map(|cursor| RangeIter::new(cursor, range))',
             rep='.map(|cursor: ReaderCursor<R>| -> (it: RangeIter<R>) ensures it.cur() == cursor && it.fresh() && it.start() == crate::reader::range_iter::bound_bytes(range.spec_start_bound()) && it.end() == crate::reader::range_iter::bound_bytes(range.spec_end_bound()) { RangeIter::new(cursor, range) })'),
        dict(name='R-closure-spec:into-rev-range', pat='.map(|cursor| RevRangeIter::new(cursor, range))',
             rep='.map(|cursor: ReaderCursor<R>| -> (it: RevRangeIter<R>) ensures it.cur() == cursor && it.fresh() && it.start() == crate::reader::range_iter::bound_bytes(range.spec_start_bound()) && it.end() == crate::reader::range_iter::bound_bytes(range.spec_end_bound()) { RevRangeIter::new(cursor, range) })'),
    ]),
    dict(name='reader::reader_cursor', file='reader/reader_cursor.rs', header=HDR_IO, rewrites=[
        dict(name='R-bytes:u64-from', kind='re', pat=r'offset_bytes\.try_into\(\)\.map\(u64::from_(be|le)_bytes\)\.unwrap\(\)', rep=r'crate::vstubs::u64_from_\1_bytes(offset_bytes)', count=8),
        dict(name='R-closure-spec:Some', pat='.map(Some)', rep='.map(|b: Block| -> (r: Option<Block>) ensures r == Some(b) { Some(b) })', count=2),
        dict(name='R-byval-handle:ibc', kind='re', pat=r'(fn move_on_(?:first|last|next|prev)<R: io::Read \+ io::Seek>\(\n\s*&mut self,\n\s*)reader: R,', rep=r'\1reader: &mut R,', count=4),
        dict(name='R-byval-handle:ibc-ge', kind='re', pat=r'(fn move_on_key_greater_than_or_equal_to<R: io::Read \+ io::Seek>\(\n\s*&mut self,\n\s*key: &\[u8\],\n\s*)reader: R,', rep=r'\1reader: &mut R,', count=1),
        # --- IndexBlockCursor traversal drivers: reader handle by &mut (ghost state is tracked per object), a ghost parameter
        # naming what the mover closure does, annotated mover closures (bodies untouched)
        dict(name='R-byval-handle:ibc-drivers', kind='re', pat=r'(fn (?:iter_index_blocks|recursive_index_block|initial_index_blocks)<[^>]*>\(\n\s*&mut self,\n\s*)mut reader: R,(\n\s*mut mov: \w+,)',
             rep=r'\1reader: &mut R,\2\n        Ghost(kind): Ghost<MovKind>,', count=3),
        dict(name='R-byval-handle:ibc-block-new', pat='Block::new(&mut reader, self.compression_type)', rep='Block::new(&mut *reader, self.compression_type)', count=2),
        dict(name='R-closure-spec:mov-first', pat='self.iter_index_blocks(reader, |c| c.move_on_first())',
             rep='self.iter_index_blocks(reader, |c: &mut BlockCursor<Block>| -> (r: Option<(&[u8], &[u8])>) requires (*c).wf() ensures mover_post(MovKind::First, *old(c), *final(c), r) { c.move_on_first() }, Ghost(MovKind::First))'),
        dict(name='R-closure-spec:mov-last', pat='self.iter_index_blocks(reader, |c| c.move_on_last())',
             rep='self.iter_index_blocks(reader, |c: &mut BlockCursor<Block>| -> (r: Option<(&[u8], &[u8])>) requires (*c).wf() ensures mover_post(MovKind::Last, *old(c), *final(c), r) { c.move_on_last() }, Ghost(MovKind::Last))'),
        dict(name='R-closure-spec:mov-ge', pat='self.iter_index_blocks(reader, |c| c.move_on_key_greater_than_or_equal_to(key))',
             rep='self.iter_index_blocks(reader, |c: &mut BlockCursor<Block>| -> (r: Option<(&[u8], &[u8])>) requires (*c).wf() ensures mover_post(MovKind::Ge(key@), *old(c), *final(c), r) { c.move_on_key_greater_than_or_equal_to(key) }, Ghost(MovKind::Ge(key@)))'),
        dict(name='R-closure-spec:mov-next', pat='self.recursive_index_block(reader, |c| c.move_on_next())',
             rep='self.recursive_index_block(reader, |c: &mut BlockCursor<Block>| -> (r: Option<(&[u8], &[u8])>) requires (*c).wf() ensures mover_post(MovKind::Next, *old(c), *final(c), r) { c.move_on_next() }, Ghost(MovKind::Next))'),
        dict(name='R-closure-spec:mov-prev', pat='self.recursive_index_block(reader, |c| c.move_on_prev())',
             rep='self.recursive_index_block(reader, |c: &mut BlockCursor<Block>| -> (r: Option<(&[u8], &[u8])>) requires (*c).wf() ensures mover_post(MovKind::Prev, *old(c), *final(c), r) { c.move_on_prev() }, Ghost(MovKind::Prev))'),
        dict(name='R-ghost-arg:init-1', pat='self.initial_index_blocks(reader, mov)?', rep='self.initial_index_blocks(reader, mov, Ghost(kind))?'),
        dict(name='R-iter-mut-index:none-arm', group='iter-mut-index', pat='None => self.inner = self.initial_index_blocks(reader, mov, Ghost(kind))?,', rep='false => self.inner = self.initial_index_blocks(reader, mov, Ghost(kind))?,'),
        # R-closure-by-ref: the one call that hands the mover on as `&mut mov` goes through a TRUSTED shim (spec: init_by_ref) stating
        # that the closure keeps its contract; its body is the original call
        dict(name='R-closure-by-ref:init-2', pat='self.initial_index_blocks(&mut reader, &mut mov)?', rep='self.init_by_ref(&mut *reader, &mut mov, Ghost(kind))?'),
        # the nested `recursive` gets one ghost parameter (erased) describing the levels it is given; its tail call in
        # recursive_index_block is let-bound so that ghost state can be updated after it returns (R-tail-let)
        dict(name='R-ghost-param:recursive', pat="            mov: &mut FN,\n        ) -> crate::Result<Option<(&'a [u8], &'a [u8])>>", rep="            mov: &mut FN,\n            Ghost(cx): Ghost<RecCx>,\n        ) -> crate::Result<Option<(&'a [u8], &'a [u8])>>"),
        # R-try-split / R-tail-let inside `recursive`: `match f(..)? {` -> `let ih0 = f(..); let ih = ih0?; match ih {` and
        # `Ok(expr)` in tail position -> `{ let rr = expr; Ok(rr) }` (statement positions for proof hints; evaluation order unchanged)
        dict(name='R-try-split:recursive-inner', pat='match recursive(reader, compression_type, head, mov)? {', rep='let ih0 = recursive(reader, compression_type, head, mov, Ghost(cx.up()));\n                            let ih = ih0?;\n                            match ih {'),
        dict(name='R-tail-let:rec-current', pat='Some((_key, _offset)) => Ok(cursor.current()),', rep='Some((_key, _offset)) => {\n                            let rr = cursor.current();\n                            Ok(rr)\n                        }'),
        dict(name='R-tail-let:rec-mov', pat='Ok((mov)(cursor))', rep='{\n                                    let rr = (mov)(cursor);\n                                    Ok(rr)\n                                    }'),
        dict(name='R-tail-let:recursive', pat='Some(inner) => recursive(&mut reader, self.compression_type, inner, &mut mov),',
             rep='Some(inner) => {\n                let rr = recursive(&mut *reader, self.compression_type, inner, &mut mov, Ghost(cx0));\n                rr\n            }'),
        # R-iter-mut-index: `match self.inner.as_mut() { Some(inner) => { ..; for (offset, cursor) in inner { B } } None => X }` becomes
        # `match self.inner.is_some() { true => { ..; let mut vi = 0; while vi < self.inner.as_ref().unwrap().len() {
        #    let ve = &mut self.inner.as_mut().unwrap()[vi]; let offset = &mut ve.0; let cursor = &mut ve.1; B; vi += 1 } } false => X }`
        # (same element order, same statements B on the same element; `vi += 1;` is appended by the spec's loop_end part; B has no
        # `continue`). Needed because Verus cannot relate a reborrow taken OUTSIDE a loop to `final(self)` at an exit INSIDE the loop.
        dict(name='R-iter-mut-index', group='iter-mut-index', pat='match self.inner.as_mut() {\n            Some(inner) => {\n                let mut jump_to_offset = self.base_block_offset;\n                for (offset, cursor) in inner {',
             rep='match self.inner.is_some() {\n            true => {\n                let mut jump_to_offset = self.base_block_offset;\n                let mut vi: usize = 0;\n                while vi < self.inner.as_ref().unwrap().len() {\n                    let ve = &mut self.inner.as_mut().unwrap()[vi];\n                    let offset = &mut ve.0;\n                    let cursor = &mut ve.1;'),
        dict(name='R-closure-spec:last', pat='.and_then(|inner| inner.last())',
             rep='.and_then(|inner: &Vec<(u64, BlockCursor<Block>)>| -> (r: Option<&(u64, BlockCursor<Block>)>) ensures (inner@.len() == 0 ==> r is None) && (inner@.len() > 0 ==> r is Some && *(r->0) == inner@.last()) { inner.last() })'),
        dict(name='R-closure-spec:filter-le', pat='.map(|opt| opt.filter(|(key, _)| *key <= target_key))',
             rep='.map(|opt: Option<(&[u8], &[u8])>| -> (r: Option<(&[u8], &[u8])>) ensures r == (if opt is Some && lex_le((opt->0).0@, target_key@) { opt } else { None::<(&[u8], &[u8])> }) { proof { crate::vstubs::axiom_slice_u8_obeys(); if opt is Some { crate::vstubs::axiom_slice_u8_ord((opt->0).0, target_key); } } opt.filter(|e: &(&[u8], &[u8])| -> (b: bool) ensures b == lex_le(e.0@, target_key@) { proof { crate::vstubs::axiom_slice_u8_obeys(); crate::vstubs::axiom_slice_u8_ord(e.0, target_key); } e.0 <= target_key }) })'),
        dict(name='R-closure-spec:filter-eq', pat='.map(|opt| opt.filter(|(k, _)| *k == key))',
             rep='.map(|opt: Option<(&[u8], &[u8])>| -> (r: Option<(&[u8], &[u8])>) ensures r == (if opt is Some && (opt->0).0@ == key@ { opt } else { None::<(&[u8], &[u8])> }) { proof { crate::vstubs::axiom_slice_u8_obeys(); } opt.filter(|e: &(&[u8], &[u8])| -> (b: bool) ensures b == (e.0@ == key@) { proof { crate::vstubs::axiom_slice_u8_obeys(); crate::vstubs::axiom_slice_u8_eq(e.0, key); } e.0 == key }) })'),
    ]),
    dict(name='reader::range_iter', file='reader/range_iter.rs', header=HDR_IO, rewrites=[
        dict(name='R-derive:Clone', pat='#[derive(Clone)]\npub struct R', rep='pub struct R', count=2),
        # R-range-bound: vstd gives the generic `RangeBounds` methods no postcondition; route them through stubs that pin them to vstd's spec projections
        dict(name='R-range-bound:start', pat='map_bound(range.start_bound(), |bytes| bytes.as_ref().to_vec())',
             rep='map_bound(crate::vstubs::range_start(&range), |bytes: &A| -> (v: Vec<u8>) ensures v@ == crate::as_ref_view::<A>(bytes) { bytes.as_ref().to_vec() })', count=2),
        dict(name='R-range-bound:end', pat='map_bound(range.end_bound(), |bytes| bytes.as_ref().to_vec())',
             rep='map_bound(crate::vstubs::range_end(&range), |bytes: &A| -> (v: Vec<u8>) ensures v@ == crate::as_ref_view::<A>(bytes) { bytes.as_ref().to_vec() })', count=2),
        # R-guard-if: Verus does not end the first reborrow when its bindings are only used in a match guard;
        # `P if g => X, P2 => Y` (P2 the same pattern without guard) becomes `P2 => if g { X } else { Y }`
        dict(name='R-guard-if:fwd', kind='re', pat=r'Some\(\(key, _\)\) if key == start => self\.cursor\.move_on_next\(\)\?,\n\s*Some\(\(key, val\)\) => Some\(\(key, val\)\),',
             rep='Some((key, val)) => { if key == start { self.cursor.move_on_next()? } else { Some((key, val)) } }'),
        dict(name='R-guard-if:rev', kind='re', pat=r'Some\(\(key, _\)\) if key == end => self\.cursor\.move_on_prev\(\)\?,\n\s*Some\(\(key, val\)\) => Some\(\(key, val\)\),',
             rep='Some((key, val)) => { if key == end { self.cursor.move_on_prev()? } else { Some((key, val)) } }'),
    ]),
    dict(name='reader::prefix_iter', file='reader/prefix_iter.rs', header=HDR_IO, rewrites=[
        # R-mutparam: inside loops Verus evaluates a function postcondition that names a `mut` by-value parameter on the
        # parameter's current value; `fn f(mut x: T) { B }` becomes `fn f(x0: T) { let mut x = x0; B }`
        dict(name='R-mutparam:advance_key', pat='fn advance_key(mut bytes: Vec<u8>) -> Option<Vec<u8>> {', rep='fn advance_key(bytes0: Vec<u8>) -> Option<Vec<u8>> { let mut bytes = bytes0;'),
        dict(name='R-guard-if:prefix', kind='re', pat=r'Some\(\(k, _\)\) if k == next_prefix => cursor\.move_on_prev\(\),\n(\s*)_otherwise => Ok\(cursor\.current\(\)\),',
             rep=r'Some((k, _)) => {\n\1    if k == next_prefix {\n\1        cursor.move_on_prev()\n\1    } else {\n\1        Ok(cursor.current())\n\1    }\n\1}\n\1None => {\n\1    Ok(cursor.current())\n\1}'),
    ]),
    dict(name='merge_function', file='merge_function.rs', header=HDR_IO, rewrites=[
        dict(name='drop:Either', kind='drop_item', pat=r'^impl<MFA, MFB> MergeFunction for Either<MFA, MFB>', count=1),
        dict(name='R-use:either', pat='use either::Either;\n', rep=''),
        # the user's merge function is a deterministic function of (key, values): contract on the trait method (mf_out is uninterpreted)
        dict(name='R-trait-spec:merge', pat="    fn merge<'a>(&self, key: &[u8], values: &[Cow<'a, [u8]>])\n        -> Result<Cow<'a, [u8]>, Self::Error>;",
             rep="    fn merge<'a>(&self, key: &[u8], values: &[Cow<'a, [u8]>])\n        -> (r: Result<Cow<'a, [u8]>, Self::Error>)\n        ensures r is Ok ==> mf_out(self, key@, cows_view(values@)) == Some(cow_view(r->Ok_0)), r is Err ==> mf_out(self, key@, cows_view(values@)) is None;"),
    ]),
    dict(name='merger', file='merger.rs', header=HDR_IO, rewrites=[
        # R-hoist: the iterator chain that gathers the values of the entries sharing the key becomes a call to a stub with an
        # assumed contract (spec: collect_values, body = the original chain)
        dict(name='R-hoist:values', pat="let other_values =\n            self.tmp_entries.iter().filter_map(|e| e.cursor.current().map(|(_, v)| v));\n        let values: Vec<_> = once(first_value).chain(other_values).map(Cow::Borrowed).collect();",
             rep="let values: Vec<Cow<[u8]>> = collect_values(first_value, &self.tmp_entries);"),
        # R-chain-drain + R-field-split: `for mut entry in once(first_entry).chain(self.tmp_entries.drain(..)) { if entry.cursor.move_on_next()..?.is_some()
        # { self.heap.push(entry); } }` becomes a loop over a Vec holding first_entry followed by the drained entries, in the same order (on an early
        # exit the remaining entries are dropped, as with drain); the entry is taken apart and rebuilt because Verus forbids `&mut` to a field of a
        # type carrying a type invariant
        dict(name='R-chain-drain', group='chain-drain', pat='for mut entry in once(first_entry).chain(self.tmp_entries.drain(..)) {',
             rep='let mut all_entries: Vec<Entry<R>> = Vec::new();\n        all_entries.push(first_entry);\n        all_entries.append(&mut self.tmp_entries);\n        for entry0 in all_entries {\n            let Entry { cursor: mut ecursor, source_index: eindex } = entry0;'),
        dict(name='R-field-split:cursor', group='chain-drain', kind='re', pat=r'\bentry\.cursor\.move_on_next\(\)', rep='ecursor.move_on_next()', count='+'),
        dict(name='R-field-split:push', group='chain-drain', pat='self.heap.push(entry)', rep='self.heap.push(Entry { cursor: ecursor, source_index: eindex })', count='+'),
        # R-enumerate: `for (index, mut source) in self.sources.into_iter().enumerate() { B }` becomes a counted loop over the Vec
        # (`index = index + 1;` is appended to the loop body by the spec's loop_end part; B has no `continue`)
        dict(name='R-enumerate', pat='for (index, mut source) in self.sources.into_iter().enumerate() {',
             rep='let mut index: usize = 0;\n        for source0 in self.sources {\n            let mut source = source0;'),
        dict(name='R-closure-pat:k', pat='.map(|(k, _)| k)', rep='.map(|e: (&[u8], &[u8])| -> (r: &[u8]) ensures r@ == e.0@ { e.0 })', count=2),
        dict(name='R-mutself', kind='mutself', fn='add', count=1),
    ]),
    dict(name='sorter', file='sorter.rs', header=HDR_IO, rewrites=[
        dict(name='R-path:bytemuck', pat='use bytemuck::{cast_slice, cast_slice_mut, Pod, Zeroable};\n', rep='use crate::bytemuck::{cast_slice, cast_slice_mut};\n'),
        dict(name='R-derive:Pod', pat='#[derive(Default, Copy, Clone, Pod, Zeroable)]', rep='#[derive(Copy, Clone)]'),
        dict(name='R-assert-diverge', kind='assert_diverge', count='+'),
        dict(name='R-align-to', pat='unsafe { self.buffer.align_to::<EntryBound>().1.len() }', rep='aligned_bounds_capacity(&self.buffer)'),
        dict(name='R-mutself', kind='mutself', fn='extract_reader_cursors_and_merger', count=1),
        dict(name='drop:Debug', kind='drop_item', pat=r'^impl<MF, CC: ChunkCreator> Debug for Sorter<MF, CC>', count=1),
        dict(name='drop:DropBuffer', kind='drop_item', pat=r'^impl Drop for EntryBoundAlignedBuffer', count=1),
        dict(name='drop:dynFn', kind='drop_item', pat=r'^impl<C: Write \+ Seek \+ Read, E: Into<Error>> ChunkCreator for dyn Fn', count=1),
        dict(name='drop:tempfile', kind='drop_item', pat=r'^#\[cfg\(feature =\s+\)\]\n(#\[[^\n]*\]\n)*(pub struct TempFileChunk|impl ChunkCreator for TempFileChunk|pub type DefaultChunkCreator|use std::fs::File)', count=4),
    ]),
    dict(name='varint', file='varint.rs', header=HDR, rewrites=[]),
    dict(name='block_writer', file='block_writer.rs', header=HDR, rewrites=[
        dict(name='R-assert-diverge', kind='assert_diverge', count='+'),
        dict(name='R-hoist:extend-offsets', pat='self.buffer.extend(self.index_offsets.iter().copied().flat_map(u64::to_be_bytes));',
             rep='crate::vstubs::extend_be64s(&mut self.buffer, &self.index_offsets);'),
        dict(name='R-bytes:u32', kind='re', pat=r'\bindex_offsets_count\.to_(be|le)_bytes\(\)', rep=r'crate::vstubs::u32_to_\1_bytes(index_offsets_count)'),
        dict(name='R-derive:Clone', pat='#[derive(Clone)]\npub struct BlockWriter {', rep='pub struct BlockWriter {'),
        dict(name='R-exec-const', pat='const DEFAULT_INDEX_KEY_INTERVAL: NonZeroUsize =', rep='exec const DEFAULT_INDEX_KEY_INTERVAL: NonZeroUsize ='),
        dict(name='R-pub-field', pat="    block_builder: &'a mut BlockWriter,", rep="    pub block_builder: &'a mut BlockWriter,"),
        dict(name='R-drop', pat="impl Drop for BlockBuffer<'_> {\n    fn drop(&mut self) {", rep="impl BlockBuffer<'_> {\n    pub fn verif_drop(&mut self) {"),
    ]),
]
