# Which source files are extracted, in which order, and the rewrite table (DESIGN.md §4.1).
HDR = 'use vstd::prelude::*;\nuse crate::ghost::*;\n'
MODULES = [
    dict(name='varint', file='varint.rs', header=HDR, rewrites=[]),
]
