# Which source files are extracted, in which order, and the rewrite table (DESIGN.md §4.1).
HDR = 'use vstd::prelude::*;\nuse crate::ghost::*;\n'
HDR_IO = HDR + 'use crate::vio::*;\nbroadcast use crate::error::axiom_qmark_io;\n'
MODULES = [
    dict(name='error', file='error.rs', header=HDR + 'use crate::vio::*;\n', rewrites=[
        dict(name='drop:Display', kind='drop_item', pat=r'^impl<U: fmt::Display> fmt::Display for Error<U>', count=1),
        dict(name='drop:StdError', kind='drop_item', pat=r'^impl<U: fmt::Display \+ fmt::Debug> error::Error for Error<U>', count=1),
        dict(name='R-derive:Debug', pat='#[derive(Debug)]\npub enum Error', rep='pub enum Error'),
        dict(name='drop:From<Infallible>', kind='drop_item', pat=r'^impl<U> From<Infallible> for Error<U>', count=1),
    ]),
    dict(name='compression', file='compression.rs', header=HDR_IO, rewrites=[
        dict(name='drop:FromStr', kind='drop_item', pat=r'^impl FromStr for CompressionType', count=1),
        dict(name='drop:Display', kind='drop_item', pat=r'^impl fmt::Display for InvalidCompressionType', count=1),
        dict(name='drop:StdError', kind='drop_item', pat=r'^impl Error for InvalidCompressionType', count=1),
        dict(name='drop:codecs', kind='drop_item', pat=r'^(#\[[^\n]*\]\s*)*fn (zlib|snappy|snappy_pre_05|zstd|lz4)_(de)?compress', count=20),
        dict(name='drop:decompress', kind='drop_item', pat=r'^pub fn decompress<R>', count=1),
        dict(name='drop:compress', kind='drop_item', pat=r'^pub fn compress\(', count=1),
        dict(name='R-use', pat='use std::error::Error;\nuse std::str::FromStr;\nuse std::{fmt, io};', rep='use std::io;'),
    ]),
    dict(name='count_write', file='count_write.rs', header=HDR_IO, rewrites=[
        dict(name='R-mutself', kind='mutself', fn='into_inner', count=1),
    ]),
    dict(name='metadata', file='metadata.rs', header=HDR_IO, rewrites=[
        dict(name='R-path:byteorder', pat='use byteorder::', rep='use crate::byteorder::'),
        dict(name='R-byval-handle:read_from', pat='pub(crate) fn read_from<R: Read + Seek>(mut reader: R)', rep='pub(crate) fn read_from<R: Read + Seek>(reader: &mut R)'),
        dict(name='R-byval-handle:write_into', pat='pub(crate) fn write_into<W: Write>(&self, mut writer: W)', rep='pub(crate) fn write_into<W: Write>(&self, writer: &mut W)'),
    ]),
    dict(name='writer', file='writer.rs', header=HDR_IO, rewrites=[
        dict(name='R-path:byteorder', pat='use byteorder::', rep='use crate::byteorder::'),
        dict(name='R-mutself', kind='mutself', fn='into_inner', count=1),
        dict(name='R-byval-handle:cawb', pat='fn compress_and_write_block<W: io::Write>(\n    mut writer: W,', rep='fn compress_and_write_block<W: io::Write>(\n    writer: &mut W,'),
        dict(name='R-bytes:u64', kind='re', pat=r'\b(offset|index_block_offset)\.to_(be|le)_bytes\(\)', rep=r'crate::vstubs::u64_to_\2_bytes(\1)', count=4),
        dict(name='R-drop:explicit', pat='    let buffer = block_writer.finish();\n', rep='    let mut buffer_bb = block_writer.finish();\n    let buffer = &buffer_bb;\n'),
    ]),
    dict(name='varint', file='varint.rs', header=HDR, rewrites=[]),
    dict(name='block_writer', file='block_writer.rs', header=HDR, rewrites=[
        dict(name='R-assert-diverge', kind='assert_diverge', count='+'),
        dict(name='R-hoist:extend-offsets', pat='self.buffer.extend(self.index_offsets.iter().copied().flat_map(u64::to_be_bytes));',
             rep='crate::vstubs::extend_be64s(&mut self.buffer, &self.index_offsets);'),
        dict(name='R-bytes:u32', kind='re', pat=r'\bindex_offsets_count\.to_(be|le)_bytes\(\)', rep=r'crate::vstubs::u32_to_\1_bytes(index_offsets_count)'),
        dict(name='R-derive:Clone', pat='#[derive(Clone)]\npub struct BlockWriter {', rep='pub struct BlockWriter {'),
        dict(name='R-exec-const', pat='const DEFAULT_INDEX_KEY_INTERVAL: NonZeroUsize =', rep='exec const DEFAULT_INDEX_KEY_INTERVAL: NonZeroUsize ='),
        dict(name='R-pub-field', pat="    block_builder: &'a mut BlockWriter,", rep="    pub block_builder: &'a mut BlockWriter,"),
        dict(name='R-drop', pat="impl Drop for BlockBuffer<'_> {\n    fn drop(&mut self) {", rep="impl BlockBuffer<'_> {\n    pub fn verif_drop(&mut self) {"),
    ]),
]
