// ===========================================================================
// PRELUDE — trusted base. Everything in this file is ASSUMED, not proved:
// stand-ins for external crates and assumed contracts for std functions.
// (generated file: do not edit; see /verif/specs/prelude.rs)
// ===========================================================================
#![allow(unused_imports, dead_code, unused_variables, unused_mut, unused_parens, unused_braces, non_snake_case, unreachable_code, unused_assignments)]
#![feature(sized_hierarchy, allocator_api)]
use vstd::prelude::*;
