// ===========================================================================
// PRELUDE — trusted base. Everything in this file is ASSUMED, not proved:
// stand-ins for external crates and assumed contracts for std functions.
// (generated file: do not edit; see /verif/specs/prelude.rs)
// ===========================================================================
#![verifier::allow(undeclared_external_trait)]
#![allow(unused_imports, dead_code, unused_variables, unused_mut, unused_parens, unused_braces, non_snake_case, unreachable_code, unused_assignments)]
#![feature(sized_hierarchy, allocator_api, const_destruct)]
use vstd::prelude::*;
use vstd::std_specs::cmp::*;

verus! {
pub mod vstubs {
use vstd::prelude::*;
use vstd::std_specs::cmp::*;
use crate::ghost::*;

/// Models a documented panic as "does not return" (R-assert-diverge): partial correctness.
#[verifier::external_body]
pub fn vpanic()
    ensures false,
{
    panic!()
}

/// PHYSICAL BOUND (assumption, used at named call sites only): no in-memory buffer holds 2^60 elements.
pub axiom fn axiom_physical_vec<T>(v: &Vec<T>)
    ensures v@.len() < 0x1000_0000_0000_0000;
/// PHYSICAL BOUND on byte counters (assumption at named call sites): fewer than 2^62 bytes were ever written
pub axiom fn axiom_physical_u64(x: u64)
    ensures x < 0x4000_0000_0000_0000;
pub axiom fn axiom_physical_slice<T>(s: &[T])
    ensures s@.len() < 0x1000_0000_0000_0000;

pub assume_specification<T> [<[T]>::to_vec] (s: &[T]) -> (r: Vec<T>)
    where T: Clone,
    ensures r@ == s@;

pub assume_specification<T: core::cmp::Ord + core::marker::Destruct> [core::cmp::max::<T>] (a: T, b: T) -> (r: T)
    ensures
        vstd::std_specs::cmp::OrdSpec::cmp_spec(&a, &b) == core::cmp::Ordering::Greater ==> r == a,
        vstd::std_specs::cmp::OrdSpec::cmp_spec(&a, &b) != core::cmp::Ordering::Greater ==> r == b;

pub assume_specification<T> [core::mem::drop::<T>] (x: T);

pub assume_specification<T, P> [core::option::Option::<T>::filter] (o: Option<T>, p: P) -> (r: Option<T>)
    where P: core::ops::FnOnce(&T,) -> bool + core::marker::Destruct, T: core::marker::Destruct,
    requires o is Some ==> call_requires(p, (&o->0,)),
    ensures match o { None => r is None, Some(x) => exists|b: bool| call_ensures(p, (&x,), b) && r == (if b { Some(x) } else { None::<T> }) };

pub assume_specification<T> [<[T]>::split_last_mut] (s: &mut [T]) -> (r: Option<(&mut T, &mut [T])>)
    ensures
        match r {
            None => old(s)@.len() == 0 && final(s)@ == old(s)@,
            Some((last, head)) => old(s)@.len() > 0 && *last == old(s)@.last() && head@ == old(s)@.drop_last()
                && final(s)@ == final(head)@.push(*final(last)),
        };

pub assume_specification<T, E, F: FnOnce(E) -> T + core::marker::Destruct> [Result::<T, E>::unwrap_or_else] (res: Result<T, E>, f: F) -> (r: T)
    requires
        res is Err ==> f.requires((res->Err_0,)),
    ensures
        res is Ok ==> r == res->Ok_0,
        res is Err ==> f.ensures((res->Err_0,), r);

/// std: binary search over a slice sorted by `Ord` (strictly, so the match is unique)
pub assume_specification<T: Ord> [<[T]>::binary_search] (s: &[T], x: &T) -> (r: Result<usize, usize>)
    ensures
        (forall|i: int, j: int| 0 <= i < j < s@.len() ==> vstd::std_specs::cmp::OrdSpec::cmp_spec(&s@[i], &s@[j]) == core::cmp::Ordering::Less)
        ==> match r {
            Ok(i) => i < s@.len() && vstd::std_specs::cmp::OrdSpec::cmp_spec(&s@[i as int], x) == core::cmp::Ordering::Equal,
            Err(i) => i <= s@.len()
                && (forall|k: int| 0 <= k < i ==> vstd::std_specs::cmp::OrdSpec::cmp_spec(&s@[k], x) == core::cmp::Ordering::Less)
                && (forall|k: int| i <= k < s@.len() ==> vstd::std_specs::cmp::OrdSpec::cmp_spec(&s@[k], x) == core::cmp::Ordering::Greater),
        };

/// std: binary search by key. ASSUMED contract, relative to the key function's own (verified) ensures: there are keys
/// ks[j] (what `f` returns for slot j; `f` is callable on every slot by the precondition) such that, provided they are
/// strictly ascending under `Ord`, the result classifies every slot key against `b`.
pub assume_specification<'a, T, B: Ord, F: FnMut(&'a T) -> B> [<[T]>::binary_search_by_key] (s: &'a [T], b: &B, f: F) -> (r: Result<usize, usize>)
    requires
        forall|i: int| 0 <= i < s@.len() ==> f.requires((&s@[i],)),
    ensures
        exists|ks: Seq<B>| #[trigger] bsearch_keys(ks, s@.len() as int)
            && (forall|j: int| 0 <= j < s@.len() ==> f.ensures((&s@[j],), #[trigger] ks[j]))
            && ((forall|i: int, j: int| 0 <= i < j < ks.len() ==> vstd::std_specs::cmp::OrdSpec::cmp_spec(&ks[i], &ks[j]) == core::cmp::Ordering::Less)
                ==> match r {
                    Ok(i) => i < s@.len() && vstd::std_specs::cmp::OrdSpec::cmp_spec(&ks[i as int], b) == core::cmp::Ordering::Equal,
                    Err(i) => i <= s@.len()
                        && (forall|j: int| 0 <= j < i ==> vstd::std_specs::cmp::OrdSpec::cmp_spec(&#[trigger] ks[j], b) == core::cmp::Ordering::Less)
                        && (forall|j: int| i <= j < s@.len() ==> vstd::std_specs::cmp::OrdSpec::cmp_spec(&#[trigger] ks[j], b) == core::cmp::Ordering::Greater),
                });
pub open spec fn bsearch_keys<B>(ks: Seq<B>, n: int) -> bool { ks.len() == n }

pub open spec fn ord_rev(o: core::cmp::Ordering) -> core::cmp::Ordering {
    match o { core::cmp::Ordering::Less => core::cmp::Ordering::Greater, core::cmp::Ordering::Equal => core::cmp::Ordering::Equal, core::cmp::Ordering::Greater => core::cmp::Ordering::Less }
}
pub open spec fn ord_then(a: core::cmp::Ordering, b: core::cmp::Ordering) -> core::cmp::Ordering {
    match a { core::cmp::Ordering::Equal => b, _ => a }
}
pub assume_specification [<core::cmp::Ordering as PartialEq>::eq] (a: &core::cmp::Ordering, b: &core::cmp::Ordering) -> (r: bool)
    ensures r == (*a == *b);
pub assume_specification [core::cmp::Ordering::reverse] (o: core::cmp::Ordering) -> (r: core::cmp::Ordering)
    ensures r == ord_rev(o);
pub assume_specification [core::cmp::Ordering::then] (a: core::cmp::Ordering, b: core::cmp::Ordering) -> (r: core::cmp::Ordering)
    ensures r == ord_then(a, b);

/// std BinaryHeap: abstract here (its operations are only used by the unverified MergerIter for now)
#[verifier::external_type_specification]
#[verifier::external_body]
#[verifier::accept_recursive_types(T)]
#[verifier::reject_recursive_types(A)]
pub struct ExBinaryHeap<T, A: core::alloc::Allocator>(std::collections::BinaryHeap<T, A>);
/// std BinaryHeap as a bag of elements in unspecified order (ASSUMED): `pop` / `peek` give a GREATEST element w.r.t. `Ord`
pub uninterp spec fn heap_view<T, A: core::alloc::Allocator>(h: &std::collections::BinaryHeap<T, A>) -> Seq<T>;
pub open spec fn heap_max<T: Ord>(s: Seq<T>, x: T) -> bool {
    forall|j: int| 0 <= j < s.len() ==> vstd::std_specs::cmp::OrdSpec::cmp_spec(&#[trigger] s[j], &x) != core::cmp::Ordering::Greater
}
/// the element `pop` / `peek` hand out
pub uninterp spec fn heap_top<T, A: core::alloc::Allocator>(h: &std::collections::BinaryHeap<T, A>) -> T;
pub axiom fn axiom_heap_top<T: Ord, A: core::alloc::Allocator>(h: &std::collections::BinaryHeap<T, A>)
    ensures heap_view(h).len() > 0 ==> heap_max(heap_view(h), heap_top(h)) && exists|i: int| 0 <= i < heap_view(h).len() && #[trigger] heap_view(h)[i] == heap_top(h);
pub assume_specification<T: Ord, A: core::alloc::Allocator> [std::collections::BinaryHeap::<T, A>::pop] (h: &mut std::collections::BinaryHeap<T, A>) -> (r: Option<T>)
    ensures
        heap_view(old(h)).len() == 0 ==> r is None && heap_view(final(h)) == heap_view(old(h)),
        heap_view(old(h)).len() > 0 ==> r is Some && r->0 == heap_top(old(h)) && heap_max(heap_view(old(h)), r->0)
            && exists|i: int| 0 <= i < heap_view(old(h)).len() && #[trigger] heap_view(old(h))[i] == r->0 && heap_view(final(h)) == heap_view(old(h)).remove(i);
pub assume_specification<T> [std::collections::BinaryHeap::<T>::new] () -> (r: std::collections::BinaryHeap<T>)
    ensures heap_view(&r) == Seq::<T>::empty();
pub assume_specification<T: Ord, A: core::alloc::Allocator> [std::collections::BinaryHeap::<T, A>::push] (h: &mut std::collections::BinaryHeap<T, A>, x: T)
    ensures heap_view(final(h)) == heap_view(old(h)).push(x);
pub assume_specification<T, A: core::alloc::Allocator> [std::collections::BinaryHeap::<T, A>::peek] (h: &std::collections::BinaryHeap<T, A>) -> (r: Option<&T>)
    ensures
        heap_view(h).len() == 0 ==> r is None,
        heap_view(h).len() > 0 ==> r is Some && *(r->0) == heap_top(h);

// --- [u8] comparison is lexicographic byte order (std documentation) ---
pub broadcast axiom fn axiom_slice_u8_ord(a: &[u8], b: &[u8])
    ensures
        #[trigger] vstd::std_specs::cmp::PartialOrdSpec::partial_cmp_spec(&(*a), &*b) == Some(lex_cmp(a@, b@)),
;
pub broadcast axiom fn axiom_slice_u8_eq(a: &[u8], b: &[u8])
    ensures
        #[trigger] vstd::std_specs::cmp::PartialEqSpec::eq_spec(&(*a), &*b) == (a@ == b@),
;
pub broadcast axiom fn axiom_slice_u8_cmp(a: &[u8], b: &[u8])
    ensures
        #[trigger] vstd::std_specs::cmp::OrdSpec::cmp_spec(&(*a), &*b) == lex_cmp(a@, b@),
;
pub broadcast axiom fn axiom_slice_vec_u8_eq(a: &[u8], b: &Vec<u8>)
    ensures
        #[trigger] vstd::std_specs::cmp::PartialEqSpec::eq_spec(&(*a), &*b) == (a@ == b@),
;
pub broadcast axiom fn axiom_sliceref_vec_u8_eq<'a>(a: &&'a [u8], b: &Vec<u8>)
    ensures
        #[trigger] vstd::std_specs::cmp::PartialEqSpec::eq_spec(&(*a), &*b) == ((*a)@ == b@),
;
pub axiom fn axiom_slice_u8_obeys()
    ensures
        <&[u8] as PartialEqSpec<Vec<u8>>>::obeys_eq_spec(),
        <[u8] as PartialEqSpec<Vec<u8>>>::obeys_eq_spec(),
        <[u8] as PartialOrdSpec<[u8]>>::obeys_partial_cmp_spec(),
        <[u8] as PartialEqSpec<[u8]>>::obeys_eq_spec(),
        <[u8] as OrdSpec>::obeys_cmp_spec(),
;

// --- fixed-width encodings (wrappers whose bodies are the original std calls) ---
#[verifier::external_body]
pub fn u32_to_be_bytes(x: u32) -> (r: [u8; 4]) ensures r@ == be32(x) { x.to_be_bytes() }
#[verifier::external_body]
pub fn u32_to_le_bytes(x: u32) -> (r: [u8; 4]) ensures r@ == le32(x) { x.to_le_bytes() }
#[verifier::external_body]
pub fn u64_to_be_bytes(x: u64) -> (r: [u8; 8]) ensures r@ == be64(x) { x.to_be_bytes() }
#[verifier::external_body]
pub fn u64_to_le_bytes(x: u64) -> (r: [u8; 8]) ensures r@ == le64(x) { x.to_le_bytes() }

#[verifier::external_body]
pub fn u32_from_be_bytes(s: &[u8]) -> (r: u32) requires s@.len() == 4, ensures be32(r) == s@ { u32::from_be_bytes(core::convert::TryInto::try_into(s).unwrap()) }
#[verifier::external_body]
pub fn u32_from_le_bytes(s: &[u8]) -> (r: u32) requires s@.len() == 4, ensures le32(r) == s@ { u32::from_le_bytes(core::convert::TryInto::try_into(s).unwrap()) }
#[verifier::external_body]
pub fn u64_from_be_bytes(s: &[u8]) -> (r: u64) requires s@.len() == 8, ensures be64(r) == s@ { u64::from_be_bytes(core::convert::TryInto::try_into(s).unwrap()) }
#[verifier::external_body]
pub fn u64_from_le_bytes(s: &[u8]) -> (r: u64) requires s@.len() == 8, ensures le64(r) == s@ { u64::from_le_bytes(core::convert::TryInto::try_into(s).unwrap()) }

// array forms, target of the common rewrite R-bytes-arr (`u64::from_be_bytes(X)` -> `crate::vstubs::u64_from_be_arr(X)`): Verus cannot
// give the std functions a specification (their array length is an unevaluated constant), so changed code that calls them directly
// is kept within reach through these wrappers whose bodies are the std calls (ASSUMED: they are the big-/little-endian encodings)
#[verifier::external_body]
pub fn u64_from_be_arr(bytes: [u8; 8]) -> (r: u64) ensures be64(r) == bytes@ { u64::from_be_bytes(bytes) }
#[verifier::external_body]
pub fn u64_from_le_arr(bytes: [u8; 8]) -> (r: u64) ensures le64(r) == bytes@ { u64::from_le_bytes(bytes) }
#[verifier::external_body]
pub fn u32_from_be_arr(bytes: [u8; 4]) -> (r: u32) ensures be32(r) == bytes@ { u32::from_be_bytes(bytes) }
#[verifier::external_body]
pub fn u32_from_le_arr(bytes: [u8; 4]) -> (r: u32) ensures le32(r) == bytes@ { u32::from_le_bytes(bytes) }

/// R-hoist of `v.extend(bytes.chunks_exact(8).filter_map(|s| s.try_into().ok()).map(u64::from_be_bytes))`
#[verifier::external_body]
pub fn extend_u64s_from_be(v: &mut Vec<u64>, bytes: &[u8])
    ensures forall|xs: Seq<u64>| be64s(xs) == bytes@ ==> final(v)@ == old(v)@ + xs,
{ v.extend(bytes.chunks_exact(8).filter_map(|s| core::convert::TryInto::try_into(s).ok()).map(u64::from_be_bytes)); }
#[verifier::external_body]
pub fn extend_u64s_from_le(v: &mut Vec<u64>, bytes: &[u8])
    ensures forall|xs: Seq<u64>| le64s(xs) == bytes@ ==> final(v)@ == old(v)@ + xs,
{ v.extend(bytes.chunks_exact(8).filter_map(|s| core::convert::TryInto::try_into(s).ok()).map(u64::from_le_bytes)); }

/// R-transmute: lifetime extension only, the value is unchanged (soundness of the extension is a typing argument,
/// see DESIGN.md C17)
#[verifier::external_body]
pub fn extend_lifetime<'a, 'b>(s: &'a [u8]) -> (r: &'b [u8]) ensures r@ == s@ { unsafe { core::mem::transmute(s) } }

/// R-range-bound: `RangeBounds::{start_bound, end_bound}` of the caller's range type are the pure projections vstd
/// names `spec_start_bound` / `spec_end_bound` (ASSUMED for the user's range type; vstd gives the generic trait method no postcondition)
#[verifier::external_body]
#[verifier::allow(undeclared_external_trait)]
pub fn range_start<S: core::ops::RangeBounds<A>, A>(range: &S) -> (r: core::ops::Bound<&A>)
    ensures r == vstd::std_specs::range::RangeBoundsSpec::spec_start_bound(range)
{ range.start_bound() }
#[verifier::external_body]
#[verifier::allow(undeclared_external_trait)]
pub fn range_end<S: core::ops::RangeBounds<A>, A>(range: &S) -> (r: core::ops::Bound<&A>)
    ensures r == vstd::std_specs::range::RangeBoundsSpec::spec_end_bound(range)
{ range.end_bound() }

/// R-io-error-new: `io::Error::new(kind, "literal")` (the generic constructor takes `Into<Box<dyn Error + Send + Sync>>`, which the
/// installed Verus cannot express) becomes a call of this stub: an io::Error of that kind; the message is not observable by any contract
#[verifier::external_body]
pub fn io_error_new(kind: std::io::ErrorKind) -> (r: std::io::Error)
{ std::io::Error::new(kind, "") }

/// R-hoist of `decompress(ct, reader.take(block_len), &mut out)?` (compression.rs dispatcher + std Take + codec crates):
/// ASSUMED: reads the next block_len bytes of the source (however the reads are split) and appends their
/// decompression to `out`; counts as one block load.
#[verifier::external_body]
pub fn decompress_take<R: std::io::Read>(ct: crate::compression::CompressionType, reader: &mut R, block_len: u64, out: &mut Vec<u8>) -> (r: std::io::Result<()>)
    ensures
        crate::vio::rd_bytes(final(reader)) == crate::vio::rd_bytes(old(reader)), crate::vio::rd_reliable(final(reader)) == crate::vio::rd_reliable(old(reader)),
        crate::vio::rd_loads(final(reader)) == crate::vio::rd_loads(old(reader)) + 1,
        r is Ok ==> {
            let b = crate::vio::rd_bytes(old(reader)); let p = crate::vio::rd_pos(old(reader));
            &&& 0 <= p && p + block_len <= b.len()
            &&& crate::compression::decompress_spec(ct, b.subrange(p, p + block_len)) is Some
            &&& final(out)@ == old(out)@ + crate::compression::decompress_spec(ct, b.subrange(p, p + block_len))->0
        },
        // on a source that fails only past its end, the bytes of a stored block that decompresses are always delivered
        crate::vio::rd_reliable(old(reader)) && 0 <= crate::vio::rd_pos(old(reader)) && crate::vio::rd_pos(old(reader)) + block_len <= crate::vio::rd_bytes(old(reader)).len()
            && crate::compression::decompress_spec(ct, crate::vio::rd_bytes(old(reader)).subrange(crate::vio::rd_pos(old(reader)), crate::vio::rd_pos(old(reader)) + block_len)) is Some ==> r is Ok,
{ unimplemented!() }

/// R-hoist of `buf.extend(offsets.iter().copied().flat_map(u64::to_be_bytes))` (iterator adapters are outside Verus).
#[verifier::external_body]
pub fn extend_be64s(buf: &mut Vec<u8>, offsets: &Vec<u64>)
    ensures final(buf)@ == old(buf)@ + be64s(offsets@),
{
    buf.extend(offsets.iter().copied().flat_map(u64::to_be_bytes));
}

} // mod vstubs
} // verus!

verus! {
/// `AsRef` as a pure view (ASSUMED for the user's key/value types, for which `as_ref_pinned` is taken to hold;
/// the two AsRef impls inside grenad are verified against their own explicit postconditions instead)
pub uninterp spec fn as_ref_spec<A: core::marker::PointeeSized, T: core::marker::PointeeSized>(a: &A) -> &T;
pub uninterp spec fn as_ref_pinned<A: core::marker::PointeeSized, T: core::marker::PointeeSized>() -> bool;
pub open spec fn as_ref_view<A: core::marker::PointeeSized>(a: &A) -> Seq<u8> { as_ref_spec::<A, [u8]>(a)@ }
#[verifier::external_trait_specification]
pub trait ExAsRef<T: core::marker::PointeeSized>: core::marker::PointeeSized {
    type ExternalTraitSpecificationFor: AsRef<T>;
    fn as_ref(&self) -> (r: &T)
        ensures as_ref_pinned::<Self, T>() ==> r == as_ref_spec::<Self, T>(self);
}
/// std: Vec<u8> and references to AsRef types view as their content
pub broadcast axiom fn axiom_as_ref_vec(v: &Vec<u8>)
    ensures #[trigger] as_ref_view::<Vec<u8>>(v) == v@;
pub broadcast axiom fn axiom_as_ref_ref<A: ?Sized>(a: &&A)
    ensures #[trigger] as_ref_view::<&A>(a) == as_ref_view::<A>(*a);
pub broadcast axiom fn axiom_as_ref_slice(s: &[u8])
    ensures #[trigger] as_ref_view::<[u8]>(s) == s@;
/// std: the AsRef<[u8]> impls of [u8], Vec<u8> and of references to them are pure views of the value
pub axiom fn axiom_as_ref_pinned_std()
    ensures as_ref_pinned::<[u8], [u8]>(), as_ref_pinned::<Vec<u8>, [u8]>(), as_ref_pinned::<&[u8], [u8]>(), as_ref_pinned::<&Vec<u8>, [u8]>();
pub assume_specification<T, A: core::alloc::Allocator> [<Vec<T, A> as AsRef<[T]>>::as_ref] (v: &Vec<T, A>) -> (r: &[T])
    ensures r@ == v@;
} // verus!

// ===========================================================================
// I/O components (user supplied): abstract ghost state + assumed behavioural contracts.
// A sink/source may split transfers arbitrarily and may fail at any call.
// ===========================================================================
verus! {
pub mod vio {
use vstd::prelude::*;
use std::io;

#[verifier::external_type_specification]
#[verifier::external_body]
pub struct ExIoError(std::io::Error);

#[verifier::external_type_specification]
pub struct ExSeekFrom(std::io::SeekFrom);

#[verifier::external_type_specification]
pub struct ExIoErrorKind(std::io::ErrorKind);

#[verifier::reject_recursive_types(T)]
#[verifier::external_type_specification]
#[verifier::external_body]
pub struct ExCursor<T>(std::io::Cursor<T>);

/// all bytes the sink has accepted so far (ghost log)
pub uninterp spec fn sink_bytes<W: ?Sized>(w: &W) -> Seq<u8>;
/// validity predicate of a sink (for wrappers: their representation invariant)
pub uninterp spec fn sink_wf<W: ?Sized>(w: &W) -> bool;
/// number of successful flush calls that left nothing buffered: the sink is flushed iff flushed_len == |sink_bytes|
pub uninterp spec fn sink_flushed_len<W: ?Sized>(w: &W) -> int;
/// a ghost attribute of a sink that no write/flush changes (for the counting wrapper: the length of the
/// inner log when the wrapper was created)
pub uninterp spec fn sink_base<W: ?Sized>(w: &W) -> int;
/// a sink that never fails (an in-memory vector, a healthy file): every write accepts something, write_all and flush succeed.
/// A ghost attribute no call changes; used only to state C12's "when no component fails, no error is reported" for the write side
pub uninterp spec fn sink_reliable<W: ?Sized>(w: &W) -> bool;
/// content of a source (never changes), current position, and whether it is a plain in-memory style source
/// that fails only when asked for bytes beyond its end
pub uninterp spec fn rd_bytes<R: ?Sized>(r: &R) -> Seq<u8>;
pub uninterp spec fn rd_pos<R: ?Sized>(r: &R) -> int;
pub uninterp spec fn rd_reliable<R: ?Sized>(r: &R) -> bool;
/// number of block loads (one per length-prefixed block read) performed on this source (C16 ghost counter)
pub uninterp spec fn rd_loads<R: ?Sized>(r: &R) -> int;

/// std: `impl Write for Vec<u8>` appends and never fails; the log of such a sink is its content (convention)
pub broadcast axiom fn axiom_vec_sink(v: &Vec<u8>)
    ensures #[trigger] sink_wf(v), #[trigger] sink_bytes(v) == v@;
pub broadcast axiom fn axiom_vec_sink_reliable(v: &Vec<u8>)
    ensures #[trigger] sink_reliable(v);

/// physical bound: no sink ever accepted 2^62 bytes (used only to discharge counter overflow)
pub axiom fn axiom_sink_physical<W: ?Sized>(w: &W)
    ensures sink_bytes(w).len() < 0x4000_0000_0000_0000;

#[verifier::external_trait_specification]
pub trait ExWrite {
    type ExternalTraitSpecificationFor: std::io::Write;
    /// may accept any prefix of buf, or fail (then nothing was accepted)
    fn write(&mut self, buf: &[u8]) -> (r: io::Result<usize>)
        requires sink_wf(old(self)),
        ensures
            sink_wf(final(self)), sink_base(final(self)) == sink_base(old(self)), sink_reliable(final(self)) == sink_reliable(old(self)),
            match r {
                Ok(n) => n <= buf@.len() && sink_bytes(final(self)) == sink_bytes(old(self)) + buf@.subrange(0, n as int),
                Err(_) => sink_bytes(final(self)) == sink_bytes(old(self)),
            },
            sink_reliable(old(self)) ==> r is Ok;
    fn flush(&mut self) -> (r: io::Result<()>)
        requires sink_wf(old(self)),
        ensures sink_wf(final(self)), sink_bytes(final(self)) == sink_bytes(old(self)), sink_base(final(self)) == sink_base(old(self)),
            sink_reliable(final(self)) == sink_reliable(old(self)), sink_reliable(old(self)) ==> r is Ok,
            r is Ok ==> sink_flushed_len(final(self)) == sink_bytes(final(self)).len();
    /// std default loop: on Ok exactly buf was accepted, whatever the split / however many Interrupted;
    /// on Err some prefix of buf was accepted
    fn write_all(&mut self, buf: &[u8]) -> (r: io::Result<()>)
        requires sink_wf(old(self)),
        ensures sink_wf(final(self)), sink_base(final(self)) == sink_base(old(self)),
            sink_reliable(final(self)) == sink_reliable(old(self)), sink_reliable(old(self)) ==> r is Ok,
            r is Ok ==> sink_bytes(final(self)) == sink_bytes(old(self)) + buf@,
            r is Err ==> exists|n: int| 0 <= n <= buf@.len() && sink_bytes(final(self)) == sink_bytes(old(self)) + buf@.subrange(0, n);
}

#[verifier::external_trait_specification]
pub trait ExRead {
    type ExternalTraitSpecificationFor: std::io::Read;
    /// one `read` call may deliver ANY non-empty prefix of what was asked (short reads), or fail (Interrupted included)
    fn read(&mut self, buf: &mut [u8]) -> (r: io::Result<usize>)
        ensures
            rd_bytes(final(self)) == rd_bytes(old(self)), rd_reliable(final(self)) == rd_reliable(old(self)),
            rd_loads(final(self)) == rd_loads(old(self)),
            final(buf)@.len() == old(buf)@.len(),
            r is Ok ==> r->Ok_0 <= old(buf)@.len() && 0 <= rd_pos(old(self)) && rd_pos(old(self)) + r->Ok_0 <= rd_bytes(old(self)).len()
               && final(buf)@.subrange(0, r->Ok_0 as int) == rd_bytes(old(self)).subrange(rd_pos(old(self)), rd_pos(old(self)) + r->Ok_0)
               && rd_pos(final(self)) == rd_pos(old(self)) + r->Ok_0;
    /// std default loop over `read`: fills buf completely or fails; independent of how reads are split
    fn read_exact(&mut self, buf: &mut [u8]) -> (r: io::Result<()>)
        ensures
            rd_bytes(final(self)) == rd_bytes(old(self)), rd_reliable(final(self)) == rd_reliable(old(self)),
            rd_loads(final(self)) == rd_loads(old(self)),
            final(buf)@.len() == old(buf)@.len(),
            r is Ok ==> 0 <= rd_pos(old(self)) && rd_pos(old(self)) + old(buf)@.len() <= rd_bytes(old(self)).len()
               && final(buf)@ == rd_bytes(old(self)).subrange(rd_pos(old(self)), rd_pos(old(self)) + old(buf)@.len())
               && rd_pos(final(self)) == rd_pos(old(self)) + old(buf)@.len(),
            rd_reliable(old(self)) ==> (r is Ok <==> rd_pos(old(self)) + old(buf)@.len() <= rd_bytes(old(self)).len());
}

pub open spec fn seek_target(pos: io::SeekFrom, cur: int, len: int) -> int {
    match pos {
        io::SeekFrom::Start(n) => n as int,
        io::SeekFrom::End(d) => len + d as int,
        io::SeekFrom::Current(d) => cur + d as int,
    }
}

#[verifier::external_trait_specification]
pub trait ExSeek {
    type ExternalTraitSpecificationFor: std::io::Seek;
    fn seek(&mut self, pos: io::SeekFrom) -> (r: io::Result<u64>)
        ensures
            rd_bytes(final(self)) == rd_bytes(old(self)), rd_reliable(final(self)) == rd_reliable(old(self)),
            rd_loads(final(self)) == rd_loads(old(self)),
            0 <= rd_pos(final(self)),
            r is Ok ==> rd_pos(final(self)) == seek_target(pos, rd_pos(old(self)), rd_bytes(old(self)).len() as int) && r->Ok_0 as int == rd_pos(final(self)),
            rd_reliable(old(self)) ==> (r is Ok <==> seek_target(pos, rd_pos(old(self)), rd_bytes(old(self)).len() as int) >= 0);
}
/// std: an in-memory `Cursor` over a byte vector is a source whose content is the vector, positioned at 0, that fails only
/// when asked for bytes past its end (ASSUMED; used only by the verification-only round-trip client)
pub uninterp spec fn cursor_inner<T>(c: &std::io::Cursor<T>) -> T;
pub assume_specification<T> [std::io::Cursor::<T>::new] (inner: T) -> (r: std::io::Cursor<T>)
    ensures cursor_inner(&r) == inner, rd_pos(&r) == 0, rd_loads(&r) == 0;
pub broadcast axiom fn axiom_cursor_vec(c: &std::io::Cursor<Vec<u8>>)
    ensures #[trigger] rd_bytes(c) == cursor_inner(c)@, rd_reliable(c);
} // mod vio

/// stand-in for the `bytemuck` crate (only referenced from bodies that stay external to Verus; Kani checks them)
pub mod bytemuck {
use vstd::prelude::*;
/// bytemuck panics unless the byte length is a whole number of B (and the slice is aligned for B: not modelled, the
/// sorter buffer is allocated with EntryBound alignment -- Kani c17_buffer_layout_alloc_dealloc)
#[verifier::external_body]
pub fn cast_slice<A, B>(a: &[A]) -> (r: &[B])
    requires size_of::<B>() > 0, (a@.len() * size_of::<A>()) % (size_of::<B>() as int) == 0,
    ensures r@.len() * size_of::<B>() == a@.len() * size_of::<A>(),
{ unimplemented!() }
#[verifier::external_body]
pub fn cast_slice_mut<A, B>(a: &mut [A]) -> (r: &mut [B])
    requires size_of::<B>() > 0, (old(a)@.len() * size_of::<A>()) % (size_of::<B>() as int) == 0,
    ensures r@.len() * size_of::<B>() == old(a)@.len() * size_of::<A>(), final(r)@.len() == r@.len(), final(a)@.len() == old(a)@.len(),
{ unimplemented!() }
}
/// stand-in for the `byteorder` crate: read_uN/write_uN are read_exact/write_all of the fixed-endian encoding
pub mod byteorder {
use vstd::prelude::*;
use std::io;
use crate::vio::*;
use crate::ghost::*;
pub struct LittleEndian;
pub struct BigEndian;
pub trait ByteOrder { spec fn is_be() -> bool; }
impl ByteOrder for LittleEndian { open spec fn is_be() -> bool { false } }
impl ByteOrder for BigEndian { open spec fn is_be() -> bool { true } }
pub open spec fn enc<E: ByteOrder>(x: nat, n: nat) -> Seq<u8> { if E::is_be() { be_bytes(x, n) } else { le_bytes(x, n) } }

pub trait WriteBytesExt: io::Write {
    #[verifier::external_body]
    fn write_u8(&mut self, n: u8) -> (r: io::Result<()>)
        requires sink_wf(old(self)),
        ensures sink_wf(final(self)), sink_base(final(self)) == sink_base(old(self)), sink_reliable(final(self)) == sink_reliable(old(self)), sink_reliable(old(self)) ==> r is Ok, r is Ok ==> sink_bytes(final(self)) == sink_bytes(old(self)) + seq![n],
            r is Err ==> exists|k: int| 0 <= k <= 1 && sink_bytes(final(self)) == sink_bytes(old(self)) + seq![n].subrange(0, k),
    { unimplemented!() }
    #[verifier::external_body]
    fn write_u32<E: ByteOrder>(&mut self, n: u32) -> (r: io::Result<()>)
        requires sink_wf(old(self)),
        ensures sink_wf(final(self)), sink_base(final(self)) == sink_base(old(self)), sink_reliable(final(self)) == sink_reliable(old(self)), sink_reliable(old(self)) ==> r is Ok, r is Ok ==> sink_bytes(final(self)) == sink_bytes(old(self)) + enc::<E>(n as nat, 4),
            r is Err ==> exists|k: int| 0 <= k <= 4 && sink_bytes(final(self)) == sink_bytes(old(self)) + enc::<E>(n as nat, 4).subrange(0, k),
    { unimplemented!() }
    #[verifier::external_body]
    fn write_u64<E: ByteOrder>(&mut self, n: u64) -> (r: io::Result<()>)
        requires sink_wf(old(self)),
        ensures sink_wf(final(self)), sink_base(final(self)) == sink_base(old(self)), sink_reliable(final(self)) == sink_reliable(old(self)), sink_reliable(old(self)) ==> r is Ok, r is Ok ==> sink_bytes(final(self)) == sink_bytes(old(self)) + enc::<E>(n as nat, 8),
            r is Err ==> exists|k: int| 0 <= k <= 8 && sink_bytes(final(self)) == sink_bytes(old(self)) + enc::<E>(n as nat, 8).subrange(0, k),
    { unimplemented!() }
}
impl<W: io::Write + ?Sized> WriteBytesExt for W {}

pub open spec fn rd_ok<R: ?Sized>(r0: &R, r1: &R, n: int) -> bool {
    &&& 0 <= rd_pos(r0) && rd_pos(r0) + n <= rd_bytes(r0).len()
    &&& rd_pos(r1) == rd_pos(r0) + n
}
pub open spec fn rd_frame<R: ?Sized>(r0: &R, r1: &R) -> bool {
    rd_bytes(r1) == rd_bytes(r0) && rd_reliable(r1) == rd_reliable(r0) && rd_loads(r1) == rd_loads(r0)
}
pub trait ReadBytesExt: io::Read {
    #[verifier::external_body]
    fn read_u8(&mut self) -> (r: io::Result<u8>)
        ensures rd_frame(old(self), final(self)),
            r is Ok ==> rd_ok(old(self), final(self), 1) && seq![r->Ok_0] == rd_bytes(old(self)).subrange(rd_pos(old(self)), rd_pos(old(self)) + 1),
            rd_reliable(old(self)) ==> (r is Ok <==> rd_pos(old(self)) + 1 <= rd_bytes(old(self)).len()),
    { unimplemented!() }
    #[verifier::external_body]
    fn read_u32<E: ByteOrder>(&mut self) -> (r: io::Result<u32>)
        ensures rd_frame(old(self), final(self)),
            r is Ok ==> rd_ok(old(self), final(self), 4) && enc::<E>(r->Ok_0 as nat, 4) == rd_bytes(old(self)).subrange(rd_pos(old(self)), rd_pos(old(self)) + 4),
            rd_reliable(old(self)) ==> (r is Ok <==> rd_pos(old(self)) + 4 <= rd_bytes(old(self)).len()),
    { unimplemented!() }
    #[verifier::external_body]
    fn read_u64<E: ByteOrder>(&mut self) -> (r: io::Result<u64>)
        ensures rd_frame(old(self), final(self)),
            r is Ok ==> rd_ok(old(self), final(self), 8) && enc::<E>(r->Ok_0 as nat, 8) == rd_bytes(old(self)).subrange(rd_pos(old(self)), rd_pos(old(self)) + 8),
            rd_reliable(old(self)) ==> (r is Ok <==> rd_pos(old(self)) + 8 <= rd_bytes(old(self)).len()),
    { unimplemented!() }
}
impl<R: io::Read + ?Sized> ReadBytesExt for R {}
} // mod byteorder
} // verus!
