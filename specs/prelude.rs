// ===========================================================================
// PRELUDE — trusted base. Everything in this file is ASSUMED, not proved:
// stand-ins for external crates and assumed contracts for std functions.
// (generated file: do not edit; see /verif/specs/prelude.rs)
// ===========================================================================
#![allow(unused_imports, dead_code, unused_variables, unused_mut, unused_parens, unused_braces, non_snake_case, unreachable_code, unused_assignments)]
#![feature(sized_hierarchy, allocator_api)]
use vstd::prelude::*;
use vstd::std_specs::cmp::*;

verus! {
pub mod vstubs {
use vstd::prelude::*;
use vstd::std_specs::cmp::*;
use crate::ghost::*;

/// Models a documented panic as "does not return" (R-assert-diverge): partial correctness.
#[verifier::external_body]
pub fn vpanic()
    ensures false,
{
    panic!()
}

pub assume_specification<T> [<[T]>::to_vec] (s: &[T]) -> (r: Vec<T>)
    where T: Clone,
    ensures r@ == s@;

// --- [u8] comparison is lexicographic byte order (std documentation) ---
pub broadcast axiom fn axiom_slice_u8_ord(a: &[u8], b: &[u8])
    ensures
        #[trigger] vstd::std_specs::cmp::PartialOrdSpec::partial_cmp_spec(&(*a), &*b) == Some(lex_cmp(a@, b@)),
;
pub broadcast axiom fn axiom_slice_u8_eq(a: &[u8], b: &[u8])
    ensures
        #[trigger] vstd::std_specs::cmp::PartialEqSpec::eq_spec(&(*a), &*b) == (a@ == b@),
;
pub axiom fn axiom_slice_u8_obeys()
    ensures
        <[u8] as PartialOrdSpec<[u8]>>::obeys_partial_cmp_spec(),
        <[u8] as PartialEqSpec<[u8]>>::obeys_eq_spec(),
;

// --- fixed-width encodings (wrappers whose bodies are the original std calls) ---
#[verifier::external_body]
pub fn u32_to_be_bytes(x: u32) -> (r: [u8; 4]) ensures r@ == be32(x) { x.to_be_bytes() }
#[verifier::external_body]
pub fn u32_to_le_bytes(x: u32) -> (r: [u8; 4]) ensures r@ == le32(x) { x.to_le_bytes() }
#[verifier::external_body]
pub fn u64_to_be_bytes(x: u64) -> (r: [u8; 8]) ensures r@ == be64(x) { x.to_be_bytes() }
#[verifier::external_body]
pub fn u64_to_le_bytes(x: u64) -> (r: [u8; 8]) ensures r@ == le64(x) { x.to_le_bytes() }

/// R-hoist of `buf.extend(offsets.iter().copied().flat_map(u64::to_be_bytes))` (iterator adapters are outside Verus).
#[verifier::external_body]
pub fn extend_be64s(buf: &mut Vec<u8>, offsets: &Vec<u64>)
    ensures final(buf)@ == old(buf)@ + be64s(offsets@),
{
    buf.extend(offsets.iter().copied().flat_map(u64::to_be_bytes));
}

} // mod vstubs
} // verus!

verus! {
#[verifier::external_trait_specification]
pub trait ExAsRef<T: core::marker::PointeeSized>: core::marker::PointeeSized {
    type ExternalTraitSpecificationFor: AsRef<T>;
    fn as_ref(&self) -> &T;
}
pub assume_specification<T, A: core::alloc::Allocator> [<Vec<T, A> as AsRef<[T]>>::as_ref] (v: &Vec<T, A>) -> (r: &[T])
    ensures r@ == v@;
} // verus!
