//! Bounded stand-ins / witness searches for the writer-side properties (C01, C09, C10, C13, C14, C15, C18).
mod common;
use common::*;
use grenad::{Reader, Writer};
use std::io::Cursor;
#[allow(unused_imports)]
use std::convert::TryInto;

fn scan_fwd(bytes: &[u8]) -> Result<Entries, String> {
    let r = Reader::new(Cursor::new(bytes)).map_err(|e| format!("open: {}", e))?;
    let mut c = r.into_cursor().map_err(|e| e.to_string())?;
    let mut out = vec![];
    while let Some((k, v)) = c.move_on_next().map_err(|e| format!("next: {}", e))? { out.push((k.to_vec(), v.to_vec())); if out.len() > 1_000_000 { return Err("runaway scan".into()); } }
    Ok(out)
}
fn scan_bwd(bytes: &[u8]) -> Result<Entries, String> {
    let r = Reader::new(Cursor::new(bytes)).map_err(|e| format!("open: {}", e))?;
    let mut c = r.into_cursor().map_err(|e| e.to_string())?;
    let mut out = vec![];
    while let Some((k, v)) = c.move_on_prev().map_err(|e| format!("prev: {}", e))? { out.push((k.to_vec(), v.to_vec())); if out.len() > 1_000_000 { return Err("runaway scan".into()); } }
    Ok(out)
}

fn scenarios(rng: &mut Rng) -> Vec<(Cfg, Entries)> {
    let thorough = tier_thorough();
    let mut out = vec![];
    let ncfg = if thorough { 60 } else { 18 };
    for (i, cfg) in cfgs(rng, ncfg).into_iter().enumerate() {
        let n = [0, 1, 2, 7, 40, 150, 400, 900][i % 8] * if thorough && i % 3 == 0 { 3 } else { 1 };
        let keys = keyset(i, n, rng);
        let es = values_for(&keys, rng, if i % 4 == 1 { 9 } else { 0 });
        out.push((cfg, es));
    }
    // fixed corner cases: the lone empty key, empty key + others, one huge entry, deep tree with 255 levels
    let base = Cfg { ct: grenad::CompressionType::None, level: 0, block_size: 1024, interval: 2, levels: 3 };
    out.push((base.clone(), vec![(vec![], b"v".to_vec())]));
    out.push((base.clone(), vec![(vec![], vec![])]));
    out.push((base.clone(), vec![(vec![], vec![7; 3000]), (vec![0], vec![]), (vec![0, 0], vec![1])]));
    out.push((Cfg { levels: 255, ..base.clone() }, values_for(&keyset(0, 60, rng), rng, 0)));
    out.push((Cfg { levels: 255, ..base.clone() }, vec![]));
    out.push((Cfg { levels: 4, interval: 1, ..base.clone() }, values_for(&keyset(0, 700, rng), rng, 0)));
    out.push((Cfg { levels: 2, interval: 7, ct: grenad::CompressionType::Snappy, ..base.clone() }, values_for(&keyset(2, 500, rng), rng, 0)));
    out
}

#[test]
fn c01_roundtrip() {
    let mut rng = Rng::new(seed() + 1);
    let (mut files, mut entries, mut multi) = (0, 0, 0);
    for (cfg, es) in scenarios(&mut rng) {
        let bytes = write_file(&cfg, &es);
        let r = Reader::new(Cursor::new(&bytes[..])).unwrap_or_else(|e| cex(format!("C01 file does not open: {} cfg={:?} n={}", e, cfg, es.len())));
        if r.len() != es.len() as u64 { cex(format!("C01 len()={} after {} inserts cfg={:?}", r.len(), es.len(), cfg)); }
        if r.compression_type() != cfg.ct { cex(format!("C01 codec {:?} reported for {:?}", r.compression_type(), cfg.ct)); }
        if r.is_empty() != es.is_empty() { cex(format!("C01 is_empty wrong cfg={:?}", cfg)); }
        match scan_fwd(&bytes) { Ok(got) => if got != es { cex(format!("C01 forward scan differs: got {} entries want {} cfg={:?} first_key={:?}", got.len(), es.len(), cfg, es.first().map(|e| hex(&e.0)))) }, Err(e) => cex(format!("C01 forward scan failed: {} cfg={:?} n={}", e, cfg, es.len())) }
        let mut rev = es.clone(); rev.reverse();
        match scan_bwd(&bytes) { Ok(got) => if got != rev { cex(format!("C01 backward scan differs: got {} entries want {} cfg={:?}", got.len(), es.len(), cfg)) }, Err(e) => cex(format!("C01 backward scan failed: {} cfg={:?} n={}", e, cfg, es.len())) }
        files += 1; entries += es.len();
        if let Ok(d) = decode_file(&bytes, Some(cfg.interval)) { if d.blocks.iter().filter(|b| b.depth >= 2 && b.depth <= cfg.levels as usize).count() > 1 { multi += 1; } }
    }
    // configuration corners: every codec at compression levels from 0 to far out of any codec's range, the largest possible block
    // size (a single data block) and in-block interval, finishing with `finish()` on a borrowed sink as well as with `into_inner()`
    {
        let keys = keyset(1, 60, &mut rng); let es = values_for(&keys, &mut rng, 0);
        let mut corner: Vec<Cfg> = vec![];
        for ct in codecs() { for level in [0u32, 1, 9, 10, 19, 22, 23, 100, u32::MAX] { corner.push(Cfg { ct, level, block_size: 1024, interval: 2, levels: 1 }); } }
        corner.push(Cfg { ct: grenad::CompressionType::None, level: 0, block_size: usize::MAX, interval: usize::MAX, levels: 0 });
        corner.push(Cfg { ct: grenad::CompressionType::Snappy, level: 0, block_size: usize::MAX, interval: 1, levels: 255 });
        corner.push(Cfg { ct: grenad::CompressionType::None, level: 0, block_size: 0, interval: usize::MAX, levels: 3 });
        for cfg in corner {
            for (ei, es) in [es.clone(), vec![]].into_iter().enumerate() {
                let es = &es;
                let r = std::panic::catch_unwind(|| { let a = write_file(&cfg, es);
                    let mut b = Vec::new(); { let mut w = cfg.builder().build(&mut b); for (k, v) in es.iter() { w.insert(k, v).unwrap(); } w.finish().unwrap(); } (a, b) });
                let (a, b) = match r { Ok(x) => x, Err(p) => { let m = p.downcast_ref::<String>().cloned().or_else(|| p.downcast_ref::<&str>().map(|s| s.to_string())).unwrap_or_default();
                    cex(format!("C01 writing {} entries panicked or failed: `{}` cfg={:?}", es.len(), m, cfg)) } };
                if a != b { cex(format!("C01 `finish()` on a borrowed sink left {} bytes, `into_inner()` returns {} bytes for the same {} inserts cfg={:?}", b.len(), a.len(), es.len(), cfg)); }
                match scan_fwd(&b) { Ok(got) => if got[..] != es[..] { cex(format!("C01 forward scan of the file left by finish() differs: got {} entries want {} cfg={:?}", got.len(), es.len(), cfg)) }, Err(e) => cex(format!("C01 the file left by finish() ({} inserts) does not open / scan: {} cfg={:?}", es.len(), e, cfg)) }
                let rd = Reader::new(Cursor::new(&b[..])).unwrap_or_else(|e| cex(format!("C01 file does not open: {} cfg={:?}", e, cfg)));
                if rd.len() != es.len() as u64 || rd.compression_type() != cfg.ct { cex(format!("C01 len()={} codec={:?} for {} inserts cfg={:?}", rd.len(), rd.compression_type(), es.len(), cfg)); }
                files += 1; entries += es.len(); let _ = ei;
            }
        }
    }
    // block-size matrix per codec: one entry far larger than a block (above 16 MiB), one above 64 KiB, small ones around them
    for (ci, ct) in codecs().into_iter().enumerate() {
        let big_len = if profile_dev() { 300_000 + ci } else { 17 * 1024 * 1024 + 3 + ci }; // the dev-profile build is slow: it checks assertions / overflow, not sizes
        let big: Vec<u8> = (0..big_len).map(|i| ((i * 31 + i / 977) % 251) as u8).collect();
        let mid: Vec<u8> = (0..70_000 + ci).map(|i| (i % 7) as u8).collect();
        let es: Entries = vec![(vec![], b"first".to_vec()), (b"a".to_vec(), mid), (b"big".to_vec(), big), (b"c".to_vec(), vec![]), (b"d".to_vec(), vec![7u8; 300])];
        let cfg = Cfg { ct, level: 0, block_size: 1024, interval: 2, levels: (ci % 3) as u8 };
        let bytes = write_file(&cfg, &es);
        match scan_fwd(&bytes) { Ok(got) => if got != es { cex(format!("C01 forward scan differs for a file with a {}-byte value: got {} entries want {} (first difference at #{:?}) cfg={:?}", big_len, got.len(), es.len(), got.iter().zip(es.iter()).position(|(a, b)| a != b), cfg)) },
            Err(e) => cex(format!("C01 forward scan failed for a file with a {}-byte value: {} cfg={:?}", big_len, e, cfg)) }
        let mut rev = es.clone(); rev.reverse();
        match scan_bwd(&bytes) { Ok(got) => if got != rev { cex(format!("C01 backward scan differs for a file with a {}-byte value cfg={:?}", big_len, cfg)) }, Err(e) => cex(format!("C01 backward scan failed for a file with a {}-byte value: {} cfg={:?}", big_len, e, cfg)) }
        files += 1; entries += es.len();
    }
    stat("files", files); stat("entries", entries); stat("files_with_split_index_levels", multi);
    assert!(multi >= 2, "scenario generator no longer reaches split index levels");
}

#[test]
fn c09_format_and_interop() {
    let mut rng = Rng::new(seed() + 2);
    let (mut files, mut blocks) = (0, 0);
    let mut same_bytes = 0;
    for (cfg, es) in scenarios(&mut rng) {
        let bytes = write_file(&cfg, &es);
        let d = decode_file(&bytes, Some(cfg.interval)).unwrap_or_else(|e| cex(format!("C09 independent decoder rejects the file: {} cfg={:?} n={}", e, cfg, es.len())));
        // (the trailer states the index levels the file really has -- the decoder has just walked them; the request is not echoed anywhere)
        if d.meta.version != 2 || d.meta.levels > cfg.levels || d.meta.codec != cfg.ct as u8 { cex(format!("C09 trailer fields wrong: {:?} for cfg={:?}", d.meta, cfg)); }
        if d.entries != es { cex(format!("C09 independent decoder recovers {} entries, inserted {} cfg={:?}", d.entries.len(), es.len(), cfg)); }
        files += 1; blocks += d.blocks.len();
        // 0.4.7 reader on current files (codecs both versions support: None, snappy-pre-0.5 == id 1)
        if matches!(cfg.ct, grenad::CompressionType::None | grenad::CompressionType::SnappyPre05) {
            let r = grenad_0_4::Reader::new(Cursor::new(&bytes[..])).unwrap_or_else(|e| cex(format!("C09 grenad 0.4.7 cannot open the file: {} cfg={:?}", e, cfg)));
            let mut c = r.into_cursor().unwrap(); let mut got = vec![];
            loop { match c.move_on_next() { Ok(Some((k, v))) => got.push((k.to_vec(), v.to_vec())), Ok(None) => break, Err(e) => cex(format!("C09 grenad 0.4.7 scan failed: {} cfg={:?}", e, cfg)) } }
            if got != es { cex(format!("C09 grenad 0.4.7 reads {} entries, inserted {} cfg={:?}", got.len(), es.len(), cfg)); }
            // and the other direction
            let mut wb = grenad_0_4::Writer::builder();
            wb.compression_type(if cfg.ct as u8 == 0 { grenad_0_4::CompressionType::None } else { grenad_0_4::CompressionType::Snappy }).block_size(cfg.block_size)
                .index_key_interval(std::num::NonZeroUsize::new(cfg.interval).unwrap()).index_levels(cfg.levels);
            let mut w = wb.memory(); for (k, v) in &es { w.insert(k, v).unwrap(); }
            let old = w.into_inner().unwrap();
            match scan_fwd(&old) { Ok(got) => if got != es { cex(format!("C09 current reader recovers {} of {} entries from a 0.4.7 file cfg={:?}", got.len(), es.len(), cfg)) }, Err(e) => cex(format!("C09 current reader fails on a 0.4.7 file: {} cfg={:?}", e, cfg)) }
            // (byte identity with the 0.4.7 writer's output is NOT asked: C09 fixes the format, not where index blocks are cut; it is only counted)
            if cfg.ct as u8 == 0 && old == bytes { same_bytes += 1; }
        }
    }
    stat("files", files); stat("blocks", blocks); stat("uncompressed_files_byte_identical_to_0_4_7", same_bytes);
}

#[test]
fn c15_block_cut() {
    let mut rng = Rng::new(seed() + 3);
    let (mut files, mut checked) = (0, 0);
    for (cfg, es) in scenarios(&mut rng) {
        let bytes = write_file(&cfg, &es);
        let d = match decode_file(&bytes, Some(cfg.interval)) { Ok(d) => d, Err(e) => cex(format!("C15 decoder rejects file: {} cfg={:?}", e, cfg)) };
        let b = cfg.block_size.max(1024);
        let data_depth = cfg.levels as usize + 1;
        // emission order == offset order; the last block of each level may be the final flush
        for blk in &d.blocks {
            if blk.depth < 2 { continue; } // root and the level just below it are only written at the end
            let (lk, lv) = blk.entries.last().unwrap();
            let last_frame = lebn(lk.len()) + lebn(lv.len()) + lk.len() + lv.len();
            let opened_slot = (blk.entries.len() - 1) % cfg.interval == 0 && blk.entries.len() > 1;
            let without_last = blk.raw_len - last_frame - if opened_slot { 8 } else { 0 };
            if without_last >= b { cex(format!("C15 block at {} depth {} has {} bytes without its final entry (block size {}) cfg={:?}", blk.offset, blk.depth, without_last, b, cfg)); }
            let is_last_of_level = !d.blocks.iter().any(|o| o.depth == blk.depth && o.offset > blk.offset);
            if !is_last_of_level && blk.raw_len < b { cex(format!("C15 non-final block at {} depth {} emitted with {} < {} bytes cfg={:?}", blk.offset, blk.depth, blk.raw_len, b, cfg)); }
            let _ = data_depth; checked += 1;
        }
        files += 1;
    }
    stat("files", files); stat("blocks_checked", checked);
}

#[test]
fn c18_unsorted_panics() {
    use std::panic::{catch_unwind, AssertUnwindSafe};
    std::panic::set_hook(Box::new(|_| {}));
    let mut rng = Rng::new(seed() + 4);
    let mut cases = 0; let mut panicked = 0;
    let rounds = if tier_thorough() { 400 } else { 120 };
    for i in 0..rounds {
        let cfg = Cfg { ct: grenad::CompressionType::None, level: 0, block_size: 1024, interval: 1 + (i % 4), levels: (i % 4) as u8 };
        let n = 2 + rng.below(60) as usize;
        let mut keys = keyset(if i % 2 == 0 { 0 } else { 1 }, n, &mut rng);
        // disturb the order: swap, duplicate, or keep sorted
        let mode = i % 4;
        if keys.len() >= 2 { let a = rng.below(keys.len() as u64 - 1) as usize; match mode { 0 => keys.swap(a, a + 1), 1 => { let k = keys[a].clone(); keys.insert(a + 1, k); } 2 => { let k = keys[a].clone(); keys.push(k); } _ => {} } }
        let sorted_strict = keys.windows(2).all(|w| w[0] < w[1]);
        let res = catch_unwind(AssertUnwindSafe(|| { let mut w = cfg.builder().memory(); for k in &keys { w.insert(k, b"v").unwrap(); } w.into_inner().unwrap() }));
        cases += 1;
        match res {
            Err(_) => { panicked += 1; if sorted_strict { cex(format!("C18 writer panicked on strictly ascending keys cfg={:?}", cfg)); } }
            Ok(bytes) => {
                // no panic: every block must be strictly ascending (decoder checks each block)
                let r = decode_blocks_only(&bytes);
                if let Err(e) = r { cex(format!("C18 no panic but a block is not strictly ascending / malformed: {} cfg={:?} keys={:?}", e, cfg, keys.iter().take(6).map(|k| hex(k)).collect::<Vec<_>>())); }
                // (an out-of-order key that lands first in a fresh block is not covered by the statement)
            }
        }
    }
    let _ = std::panic::take_hook();
    stat("cases", cases); stat("panicked", panicked);
}
fn decode_blocks_only(bytes: &[u8]) -> Result<usize, String> {
    let meta = parse_trailer(bytes)?; let end = bytes.len() as u64 - 22; let mut pos = 0u64; let mut n = 0;
    while pos < end { let (b, next) = decode_block(bytes, pos, meta.codec, 0)?; check_block(&b, None)?; pos = next; n += 1; }
    Ok(n)
}

#[test]
fn c13_open_exactness() {
    use std::panic::{catch_unwind, AssertUnwindSafe};
    let mut rng = Rng::new(seed() + 5);
    let mut cases = 0; let mut accepted = 0;
    let check = |b: &[u8], cases: &mut usize, accepted: &mut usize| {
        let want = parse_trailer(b).is_ok();
        let got = catch_unwind(AssertUnwindSafe(|| Reader::new(Cursor::new(b)).is_ok())).unwrap_or_else(|_| cex(format!("C13 Reader::new panicked on {} bytes tail={}", b.len(), hex(&b[b.len().saturating_sub(22)..]))));
        *cases += 1; if got { *accepted += 1; }
        // the same bytes behind a source that splits every read into pieces of 1..=3 bytes and reports Interrupted at random:
        // acceptance depends on the bytes only, not on how the source delivers them
        let got_split = catch_unwind(AssertUnwindSafe(|| Reader::new(SchedSource::new(b.to_vec(), 77 + *cases as u64, 3, true)).is_ok())).unwrap_or_else(|_| cex(format!("C13 Reader::new panicked on a splitting source, {} bytes", b.len())));
        if got_split != want { cex(format!("C13 Reader::new on a source delivering reads in 1..=3-byte pieces {} a {}-byte string whose tail {} a valid trailer: tail={}", if got_split { "accepts" } else { "rejects" }, b.len(), if want { "is" } else { "is not" }, hex(&b[b.len().saturating_sub(22)..]))); }
        if got != want { cex(format!("C13 Reader::new {} a {}-byte string whose tail {} a valid trailer: tail={}", if got { "accepts" } else { "rejects" }, b.len(), if want { "is" } else { "is not" }, b[b.len().saturating_sub(22)..].iter().map(|x| format!("{:02x}", x)).collect::<String>())); }
    };
    for (cfg, es) in scenarios(&mut rng).into_iter().take(if tier_thorough() { 40 } else { 10 }) {
        let bytes = write_file(&cfg, &es);
        let from = bytes.len().saturating_sub(60);
        for cut in (0..from).step_by(97).chain(from..=bytes.len()) { check(&bytes[..cut], &mut cases, &mut accepted); }
        for i in 0..22 { for delta in [1u8, 0x80, 0xFF] { let mut b = bytes.clone(); let p = b.len() - 22 + i; b[p] = b[p].wrapping_add(delta); check(&b, &mut cases, &mut accepted); } }
        // V1 trailer variants
        let mut v1 = bytes[..bytes.len() - 22].to_vec(); let t = &bytes[bytes.len() - 22..];
        v1.extend_from_slice(&t[..17]); v1.extend_from_slice(&0x76324D4Cu32.to_le_bytes());
        for cut in v1.len().saturating_sub(30)..=v1.len() { check(&v1[..cut], &mut cases, &mut accepted); }
        for c in 0..=8u8 { let mut b = v1.clone(); let p = b.len() - 13; b[p] = c; check(&b, &mut cases, &mut accepted); let mut b = bytes.clone(); let p = b.len() - 14; b[p] = c; check(&b, &mut cases, &mut accepted); }
    }
    for _ in 0..if tier_thorough() { 20000 } else { 3000 } {
        let l = rng.below(48) as usize; let mut b = rng.bytes(l, &[0, 1, 5, 6, 0x4C, 0x4D, 0x32, 0x76, 0xC4, 0xD4, 0x23, 0x67, 0xFF]);
        if rng.below(2) == 0 && b.len() >= 4 { let m = if rng.below(2) == 0 { 0x6723D4C4u32 } else { 0x76324D4C }; let n = b.len(); b[n - 4..].copy_from_slice(&m.to_le_bytes()); }
        check(&b, &mut cases, &mut accepted);
    }
    stat("byte_strings", cases); stat("accepted", accepted);
}

fn to_v1(bytes: &[u8]) -> Vec<u8> {
    let mut v1 = bytes[..bytes.len() - 22].to_vec(); let t = &bytes[bytes.len() - 22..];
    v1.extend_from_slice(&t[..17]); v1.extend_from_slice(&0x76324D4Cu32.to_le_bytes()); v1
}

#[test]
fn c10_v1_files() {
    let mut rng = Rng::new(seed() + 6);
    let mut files = 0; let mut queries = 0;
    let n_s = if tier_thorough() { 40 } else { 14 };
    for (i, mut cfg) in cfgs(&mut rng, n_s).into_iter().enumerate() {
        cfg.levels = 0;
        let keys = keyset(i, [0, 1, 30, 200, 600][i % 5], &mut rng);
        let es = values_for(&keys, &mut rng, 0);
        let v2 = write_file(&cfg, &es); let v1 = to_v1(&v2);
        let r1 = Reader::new(Cursor::new(&v1[..])).unwrap_or_else(|e| cex(format!("C10 v1 file ({} entries, codec {:?}) does not open: {}", es.len(), cfg.ct, e)));
        let r2 = Reader::new(Cursor::new(&v2[..])).unwrap();
        if r1.file_version() != grenad::FileVersion::FormatV1 { cex("C10 v1 file not reported as FormatV1".into()); }
        if r1.len() != es.len() as u64 || r1.compression_type() != cfg.ct { cex(format!("C10 v1 file reports len {} codec {:?}, stored {} {:?}", r1.len(), r1.compression_type(), es.len(), cfg.ct)); }
        if r2.file_version() != grenad::FileVersion::FormatV2 { cex("C10 v2 file not reported as FormatV2".into()); }
        match (scan_fwd(&v1), scan_bwd(&v1)) { (Ok(f), Ok(b)) => { let mut rb = b.clone(); rb.reverse(); if f != es || rb != es { cex(format!("C10 v1 scans differ from content: fwd {} bwd {} want {} codec {:?}", f.len(), b.len(), es.len(), cfg.ct)); } } (a, b) => cex(format!("C10 v1 scan failed: {:?} {:?} codec {:?}", a.err(), b.err(), cfg.ct)) }
        let ps = probes(&keys);
        for q in ps.iter().step_by(if ps.len() > 200 { ps.len() / 200 } else { 1 }) {
            let mut c1 = Reader::new(Cursor::new(&v1[..])).unwrap().into_cursor().unwrap();
            let mut c2 = Reader::new(Cursor::new(&v2[..])).unwrap().into_cursor().unwrap();
            let a = (own(c1.move_on_key_greater_than_or_equal_to(q).unwrap()), own(c1.move_on_key_lower_than_or_equal_to(q).unwrap()), own(c1.move_on_key_equal_to(q).unwrap()));
            let b = (own(c2.move_on_key_greater_than_or_equal_to(q).unwrap()), own(c2.move_on_key_lower_than_or_equal_to(q).unwrap()), own(c2.move_on_key_equal_to(q).unwrap()));
            if a != b { cex(format!("C10 seek results differ between v1 and v2 for probe {}", hex(q))); }
            let collect_p = |bytes: &[u8], rev: bool| -> Entries { let r = Reader::new(Cursor::new(bytes)).unwrap(); let mut out = vec![];
                if rev { let mut it = r.into_rev_prefix_iter(q.clone()).unwrap(); while let Some((k, v)) = it.next().unwrap() { out.push((k.to_vec(), v.to_vec())); } }
                else { let mut it = r.into_prefix_iter(q.clone()).unwrap(); while let Some((k, v)) = it.next().unwrap() { out.push((k.to_vec(), v.to_vec())); } } out };
            if collect_p(&v1, false) != collect_p(&v2, false) || collect_p(&v1, true) != collect_p(&v2, true) { cex(format!("C10 prefix results differ between v1 and v2 for {}", hex(q))); }
            let collect_r = |bytes: &[u8], rev: bool| -> Entries { let r = Reader::new(Cursor::new(bytes)).unwrap(); let mut out = vec![];
                if rev { let mut it = r.into_rev_range_iter(q.clone()..).unwrap(); while let Some((k, v)) = it.next().unwrap() { out.push((k.to_vec(), v.to_vec())); } }
                else { let mut it = r.into_range_iter(..=q.clone()).unwrap(); while let Some((k, v)) = it.next().unwrap() { out.push((k.to_vec(), v.to_vec())); } } out };
            if collect_r(&v1, false) != collect_r(&v2, false) || collect_r(&v1, true) != collect_r(&v2, true) { cex(format!("C10 range results differ between v1 and v2 for {}", hex(q))); }
            queries += 1;
        }
        files += 1;
    }
    stat("files", files); stat("queries", queries);
}

#[test]
fn c14_framing_boundaries() {
    // entries whose key or value length sits on either side of each framing boundary that fits in memory
    let mut cases = 0;
    for &l in &[0usize, 1, 126, 127, 128, 129, 16382, 16383, 16384, 16385, 2097150, 2097151, 2097152, 2097153] {
        for which in 0..2 {
            let big: Vec<u8> = (0..l).map(|i| (i * 7 + 3) as u8).collect();
            let es: Entries = if which == 0 { vec![(b"a".to_vec(), vec![1]), (big.iter().map(|b| b | 0x80).collect::<Vec<u8>>().into_iter().chain(std::iter::once(0xFE)).collect(), vec![2, 3]), (vec![0xFF; 3], vec![])] }
                              else { vec![(b"a".to_vec(), big.clone()), (b"b".to_vec(), vec![9])] };
            let cfg = Cfg { ct: grenad::CompressionType::None, level: 0, block_size: 1024, interval: 1 + which * 7, levels: which as u8 };
            let bytes = write_file(&cfg, &es);
            match scan_fwd(&bytes) { Ok(got) => if got != es { cex(format!("C14 entry with {} length {} not returned byte-exact", if which == 0 { "key" } else { "value" }, l + (1 - which))) }, Err(e) => cex(format!("C14 scan failed for length {}: {}", l, e)) }
            let d = decode_file(&bytes, Some(cfg.interval)).unwrap_or_else(|e| cex(format!("C14 decoder: {} for length {}", e, l)));
            if d.entries != es { cex(format!("C14 independent decoder differs for length {}", l)); }
            cases += 1;
        }
    }
    stat("cases", cases);
}
