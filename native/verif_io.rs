//! Bounded stand-ins / witness searches for C11 (I/O splitting) and C12 (fault surfacing).
mod common;
use common::*;
use grenad::{ChunkCreator, MergeFunction, Merger, Reader, Sorter};
use std::borrow::Cow;
use std::cell::Cell;
use std::io::Cursor;
use std::panic::{catch_unwind, AssertUnwindSafe};
use std::rc::Rc;

fn scen(rng: &mut Rng) -> Vec<(Cfg, Entries)> {
    let base = Cfg { ct: grenad::CompressionType::None, level: 0, block_size: 1024, interval: 2, levels: 2 };
    vec![
        (base.clone(), values_for(&keyset(0, 120, rng), rng, 0)),
        (Cfg { ct: grenad::CompressionType::Snappy, levels: 0, ..base.clone() }, values_for(&keyset(4, 150, rng), rng, 9)),
        (Cfg { ct: grenad::CompressionType::Zlib, levels: 3, interval: 1, ..base.clone() }, values_for(&keyset(0, 260, rng), rng, 0)),
        (Cfg { ct: grenad::CompressionType::Lz4, levels: 1, ..base.clone() }, values_for(&keyset(2, 60, rng), rng, 0)),
        (Cfg { ct: grenad::CompressionType::Zstd, levels: 2, ..base.clone() }, values_for(&keyset(1, 80, rng), rng, 0)),
        (base.clone(), vec![]),
        (Cfg { ct: grenad::CompressionType::SnappyPre05, levels: 1, ..base.clone() }, values_for(&keyset(3, 70, rng), rng, 0)),
    ]
}

fn read_everything<R: std::io::Read + std::io::Seek>(src: R, keys: &[Vec<u8>]) -> Result<Vec<String>, String> {
    // a digest of every read API: scan both ways, seeks, ranges, prefixes
    let mut out = vec![];
    let r = Reader::new(src).map_err(|e| format!("open: {}", err_str(&e)))?;
    out.push(format!("len={} ct={:?}", r.len(), r.compression_type()));
    let mut c = r.into_cursor().map_err(|e| err_str(&e))?;
    let mut n = 0; while let Some((k, v)) = c.move_on_next().map_err(|e| format!("next: {}", err_str(&e)))? { out.push(format!("F {} {}", hex(k), hex(v))); n += 1; if n > 100000 { return Err("runaway".into()); } }
    c.reset();
    while let Some((k, _)) = c.move_on_prev().map_err(|e| format!("prev: {}", err_str(&e)))? { out.push(format!("B {}", hex(k))); }
    for q in keys.iter().step_by(1 + keys.len() / 25) {
        let mut q2 = q.clone(); q2.push(1);
        for p in [q.clone(), q2] {
            out.push(format!("GE {:?}", c.move_on_key_greater_than_or_equal_to(&p).map_err(|e| format!("GE: {}", err_str(&e)))?.map(|e| hex(e.0))));
            out.push(format!("LE {:?}", c.move_on_key_lower_than_or_equal_to(&p).map_err(|e| format!("LE: {}", err_str(&e)))?.map(|e| hex(e.0))));
            out.push(format!("EQ {:?}", c.move_on_key_equal_to(&p).map_err(|e| format!("EQ: {}", err_str(&e)))?.map(|e| hex(e.0))));
        }
    }
    let src = c.into_inner();
    let mut it = Reader::new(src).map_err(|e| format!("reopen: {}", err_str(&e)))?.into_range_iter(keys.get(keys.len() / 4).cloned().unwrap_or_default()..).map_err(|e| err_str(&e))?;
    let mut n = 0; while let Some((k, _)) = it.next().map_err(|e| format!("range: {}", err_str(&e)))? { n += 1; if n % 7 == 0 { out.push(format!("R {}", hex(k))); } }
    Ok(out)
}

#[test]
fn c11_io_splitting() {
    let mut rng = Rng::new(seed() + 31);
    let (mut sinks, mut sources) = (0, 0);
    for (cfg, es) in scen(&mut rng) {
        let reference = write_file(&cfg, &es);
        if write_file(&cfg, &es) != reference { cex(format!("C11 two runs emit different bytes cfg={:?}", cfg)); }
        for (si, &(piece, intr)) in [(1usize, false), (3, false), (7, true), (usize::MAX, true), (9, false), (4096, true)].iter().enumerate() {
            let mut w = cfg.builder().build(SchedSink::new(seed() + si as u64, piece, intr));
            for (k, v) in &es { w.insert(k, v).unwrap_or_else(|e| cex(format!("C11 insert failed on a sink that only splits/interrupts: {} (max piece {} interrupts {})", e, piece, intr))); }
            let sink = w.into_inner().unwrap_or_else(|e| cex(format!("C11 into_inner failed on a sink that only splits/interrupts: {}", e)));
            if sink.data != reference { let d = sink.data.iter().zip(reference.iter()).position(|(a, b)| a != b);
                cex(format!("C11 emitted bytes depend on how the sink splits writes: {} bytes vs {} expected, first difference at {:?} (max piece {} interrupts {}) cfg={:?}", sink.data.len(), reference.len(), d, piece, intr, cfg)); }
            sinks += 1;
        }
        let keys: Vec<Vec<u8>> = es.iter().map(|e| e.0.clone()).collect();
        let want = read_everything(Cursor::new(reference.clone()), &keys).unwrap();
        for (si, &(piece, intr)) in [(1usize, false), (5, false), (17, true), (18, false), (21, true), (usize::MAX, true), (300, true)].iter().enumerate() {
            let got = read_everything(SchedSource::new(reference.clone(), seed() + 7 + si as u64, piece, intr), &keys)
                .unwrap_or_else(|e| cex(format!("C11 reading failed on a source that only serves short reads / interruptions: {} (max piece {} interrupts {}) cfg={:?}", e, piece, intr, cfg)));
            if got != want { let d = got.iter().zip(want.iter()).position(|(a, b)| a != b);
                cex(format!("C11 read results depend on how reads are served: first difference at item {:?}: got {:?} want {:?} (max piece {} interrupts {}) cfg={:?}", d, d.map(|i| &got[i]), d.map(|i| &want[i]), piece, intr, cfg)); }
            sources += 1;
        }
    }
    // sorter + merger over chunk storage with short reads/writes
    struct SplitChunks(u64, usize, bool);
    impl ChunkCreator for SplitChunks { type Chunk = SchedSource; type Error = std::io::Error; fn create(&self) -> Result<SchedSource, std::io::Error> { Ok(SchedSource::new(vec![], self.0, self.1, self.2)) } }
    #[derive(Clone, Copy)] struct Cat; impl MergeFunction for Cat { type Error = std::convert::Infallible; fn merge<'a>(&self, _k: &[u8], v: &[Cow<'a, [u8]>]) -> Result<Cow<'a, [u8]>, Self::Error> { if v.len() == 1 { Ok(v[0].clone()) } else { Ok(Cow::Owned(v.iter().flat_map(|x| x.iter().copied()).collect())) } } }
    let keys = keyset(0, 300, &mut rng);
    let inserts: Vec<(Vec<u8>, Vec<u8>)> = (0..if tier_thorough() { 60000 } else { 25000 }).map(|i: u32| (keys[rng.below(keys.len() as u64) as usize].clone(), { let mut t = i.to_be_bytes().to_vec(); t.resize(700, 1); t })).collect();
    let run = |piece: usize, intr: bool| -> Entries { let mut b = Sorter::builder(Cat); b.dump_threshold(0).allow_realloc(false).max_nb_chunks(2).index_levels(1).block_size(1024);
        let mut s = b.chunk_creator(SplitChunks(seed() + 5, piece, intr)).build(); for (k, v) in &inserts { s.insert(k, v).unwrap_or_else(|e| cex(format!("C11 sorter insert failed on splitting chunk storage: {}", e))); }
        let mut it = s.into_stream_merger_iter().unwrap_or_else(|e| cex(format!("C11 sorter output failed on splitting chunk storage: {}", e))); let mut out = vec![];
        while let Some((k, v)) = it.next().unwrap_or_else(|e| cex(format!("C11 sorter stream failed on splitting chunk storage: {}", e))) { out.push((k.to_vec(), v.to_vec())); } out };
    let whole = run(usize::MAX, false);
    for &(piece, intr) in &[(1000usize, true), (13, false)] { if run(piece, intr) != whole { cex(format!("C11 sorter output depends on how chunk storage splits I/O (max piece {} interrupts {})", piece, intr)); } sources += 1; }
    stat("sink_schedules", sinks); stat("source_schedules", sources);
}

#[test]
fn c12_faults_surface_as_err() {
    std::panic::set_hook(Box::new(|_| {}));
    let mut rng = Rng::new(seed() + 32);
    let (mut write_faults, mut read_faults, mut merge_faults) = (0, 0, 0);
    // every scenario (so every codec); in the quick tier the later ones with a coarser sample of fault points
    for (si, (cfg, es)) in scen(&mut rng).into_iter().enumerate() {
        let coarse = !tier_thorough() && si >= 4;
        // --- sink fails at its k-th call (write or flush), for every k ---
        let mut probe = SchedSink::new(1, 64, false); { let mut w = cfg.builder().build(&mut probe); for (k, v) in &es { w.insert(k, v).unwrap(); } w.finish().unwrap(); }
        let total_calls = probe.calls;
        let step = if coarse { 1 + total_calls / 60 } else if tier_thorough() || total_calls < 400 { 1 } else { total_calls / 400 };
        for k in (1..=total_calls).step_by(step).chain([total_calls]) {
            for kind in [std::io::ErrorKind::Other, std::io::ErrorKind::WriteZero] {
                let mut sink = SchedSink::new(1, 64, false); sink.fail_at = Some(k); sink.fail_kind = kind;
                let res = catch_unwind(AssertUnwindSafe(|| -> Result<(), String> { let mut w = cfg.builder().build(&mut sink); for (key, v) in &es { w.insert(key, v).map_err(|e| format!("{:?}", e.kind()))?; } w.finish().map_err(|e| format!("{:?}", e.kind()))?; Ok(()) }));
                match res { Err(_) => cex(format!("C12 writer panicked when the sink failed at its call #{} of {} cfg={:?}", k, total_calls, cfg)),
                    Ok(Ok(())) => cex(format!("C12 writer reported success although the sink failed at its call #{} of {} ({:?}) cfg={:?}", k, total_calls, kind, cfg)),
                    Ok(Err(e)) => if e != format!("{:?}", kind) { cex(format!("C12 writer returned error kind {} for an injected {:?}", e, kind)); } }
                write_faults += 1;
            }
        }
        if probe.flushed_at != Some(probe.data.len()) { cex(format!("C12 sink handed back without a final flush (flushed at {:?} of {} bytes)", probe.flushed_at, probe.data.len())); }
        // --- source fails at its k-th call during a full read workload ---
        let bytes = write_file(&cfg, &es); let keys: Vec<Vec<u8>> = es.iter().map(|e| e.0.clone()).collect();
        let mut probe = SchedSource::new(bytes.clone(), 1, usize::MAX, false); let _ = read_everything(&mut probe, &keys).unwrap(); let total = probe.calls;
        let step = if coarse { 1 + total / 150 } else if tier_thorough() || total < 500 { 1 } else { total / 500 };
        for k in (1..=total).step_by(step) {
            let mut src = SchedSource::new(bytes.clone(), 1, usize::MAX, false); src.fail_at = Some(k);
            match catch_unwind(AssertUnwindSafe(|| read_everything(&mut src, &keys))) { Err(_) => cex(format!("C12 reader panicked when the source failed at its call #{} of {} cfg={:?}", k, total, cfg)),
                Ok(Ok(_)) => cex(format!("C12 read workload reported success although the source failed at its call #{} of {} cfg={:?}", k, total, cfg)), Ok(Err(e)) => if !e.contains("injected") || !e.contains(&format!("Io[{:?}]", INJECTED_KIND)) { cex(format!("C12 error does not carry the injected failure (an io::Error of kind {:?} saying `injected ...`): {}", INJECTED_KIND, e)); } }
            read_faults += 1;
        }
    }
    // --- nothing fails: no error may be reported, whatever the sizes (keys up to 1 MiB, one value above 16 MiB) ---
    for (klen, vlen) in [(0usize, 10usize), (255, 0), (65_535, 3), (65_536, 3), (70_000, 1000), (1 << 20, 5), (9, 17 * 1024 * 1024 + 1)] {
        let es: Entries = vec![(vec![b'a'], b"first".to_vec()), (vec![b'k'; klen.max(1)], vec![7u8; vlen]), (vec![b'z'; 3], b"last".to_vec())];
        let cfg = Cfg { ct: grenad::CompressionType::None, level: 0, block_size: 1024, interval: 2, levels: 1 };
        let r = catch_unwind(AssertUnwindSafe(|| -> Result<usize, String> {
            let mut w = cfg.builder().memory();
            for (k, v) in &es { w.insert(k, v).map_err(|e| format!("Writer::insert: Io[{:?}] {}", e.kind(), e))?; }
            let bytes = w.into_inner().map_err(|e| format!("Writer::into_inner: Io[{:?}] {}", e.kind(), e))?;
            let mut c = Reader::new(Cursor::new(bytes)).map_err(|e| format!("Reader::new: {}", err_str(&e)))?.into_cursor().map_err(|e| format!("into_cursor: {}", err_str(&e)))?;
            let mut n = 0; while let Some(_) = c.move_on_next().map_err(|e| format!("move_on_next: {}", err_str(&e)))? { n += 1; }
            c.reset(); while let Some(_) = c.move_on_prev().map_err(|e| format!("move_on_prev: {}", err_str(&e)))? { n += 1; }
            for (k, _) in &es { if c.move_on_key_equal_to(k).map_err(|e| format!("move_on_key_equal_to: {}", err_str(&e)))?.is_none() { return Err("an inserted key is not found".into()); } }
            Ok(n) }));
        match r { Err(_) => cex(format!("C12 panic although no component failed: a {}-byte key with a {}-byte value written to memory and read back", klen.max(1), vlen)),
            Ok(Err(e)) => cex(format!("C12 error reported although no component failed ({}-byte key, {}-byte value, in-memory sink and source): {}", klen.max(1), vlen, e)),
            Ok(Ok(n)) => if n != 6 { cex(format!("C12 scans returned {} entries instead of 2 x 3 ({}-byte key, {}-byte value)", n, klen.max(1), vlen)); } }
    }
    // --- merge function fails at its n-th call; chunk creator fails; chunk I/O fails: through Sorter and Merger ---
    // `fired` records that the injected failure really happened: from then on the public call in progress must return Err
    #[derive(Clone)] struct Flaky { n: Rc<Cell<usize>>, fail_at: usize, fired: Rc<Cell<bool>> }
    impl MergeFunction for Flaky { type Error = String; fn merge<'a>(&self, _k: &[u8], v: &[Cow<'a, [u8]>]) -> Result<Cow<'a, [u8]>, String> { self.n.set(self.n.get() + 1); if self.n.get() == self.fail_at { self.fired.set(true); return Err("injected merge failure".into()); } Ok(v[0].clone()) } }
    /// chunk storage whose k-th call (per chunk) fails; notes in `fired` when that happened
    struct FChunk { inner: SchedSource, no: usize, fired: Rc<Cell<bool>>, seek_calls: Rc<std::cell::RefCell<Vec<(usize, usize)>>> }
    impl FChunk { fn note<T>(&self, r: std::io::Result<T>) -> std::io::Result<T> { if let Err(e) = &r { if e.to_string().contains("injected") { self.fired.set(true); } } r } }
    impl std::io::Read for FChunk { fn read(&mut self, b: &mut [u8]) -> std::io::Result<usize> { let r = self.inner.read(b); self.note(r) } }
    impl std::io::Write for FChunk { fn write(&mut self, b: &[u8]) -> std::io::Result<usize> { let r = self.inner.write(b); self.note(r) } fn flush(&mut self) -> std::io::Result<()> { let r = self.inner.flush(); self.note(r) } }
    impl std::io::Seek for FChunk { fn seek(&mut self, p: std::io::SeekFrom) -> std::io::Result<u64> { let r = self.inner.seek(p); self.seek_calls.borrow_mut().push((self.no, self.inner.calls)); self.note(r) } }
    struct Chunks { created: Cell<usize>, fail_create_at: usize, io_fail_at: Option<usize>, io_fail_one: Option<(usize, usize)>, bad_trailer: bool, fired: Rc<Cell<bool>>, seek_calls: Rc<std::cell::RefCell<Vec<(usize, usize)>>> }
    impl ChunkCreator for Chunks { type Chunk = FChunk; type Error = grenad::Error;
        fn create(&self) -> Result<FChunk, grenad::Error> { self.created.set(self.created.get() + 1); if self.created.get() == self.fail_create_at { self.fired.set(true); return Err(if self.bad_trailer { grenad::Error::InvalidFormatVersion } else { grenad::Error::Io(std::io::Error::new(std::io::ErrorKind::Other, "injected create failure")) }); }
            let mut s = SchedSource::new(vec![], 3, usize::MAX, false); s.fail_at = self.io_fail_at;
            if let Some((no, k)) = self.io_fail_one { if no == self.created.get() { s.fail_at = Some(k); } }
            Ok(FChunk { inner: s, no: self.created.get(), fired: self.fired.clone(), seek_calls: self.seek_calls.clone() }) } }
    let keys = keyset(0, 40, &mut rng);
    let big: Vec<(Vec<u8>, Vec<u8>)> = (0..26u32).map(|i| (keys[(i % 40) as usize % keys.len()].clone(), vec![i as u8; 1024 * 1024])).collect(); // 26 MiB: spills + a chunk merge with max_nb_chunks(2)
    // route 0: streaming iterator; 1: write_into_stream_writer; 2: into_reader_cursors + Merger. Returns (outcome, fired)
    let seek_calls: Rc<std::cell::RefCell<Vec<(usize, usize)>>> = Rc::new(std::cell::RefCell::new(vec![]));
    let one: Cell<Option<(usize, usize)>> = Cell::new(None);
    let drive = |mf_fail: usize, create_fail: usize, io_fail: Option<usize>, bad: bool, route: usize| -> (Result<Result<usize, String>, ()>, bool) {
        let fired = Rc::new(Cell::new(false)); let f2 = fired.clone(); let sk2 = seek_calls.clone();
        let r = catch_unwind(AssertUnwindSafe(|| -> Result<usize, String> {
            let mf = Flaky { n: Rc::new(Cell::new(0)), fail_at: mf_fail, fired: f2.clone() };
            let mut b = Sorter::builder(mf.clone()); b.dump_threshold(0).allow_realloc(false).max_nb_chunks(2);
            let mut s = b.chunk_creator(Chunks { created: Cell::new(0), fail_create_at: create_fail, io_fail_at: io_fail, io_fail_one: one.get(), bad_trailer: bad, fired: f2.clone(), seek_calls: sk2.clone() }).build();
            for (k, v) in &big { s.insert(k, v).map_err(|e| err_str(&e))?; }
            let mut n = 0;
            match route {
                0 => { let mut it = s.into_stream_merger_iter().map_err(|e| err_str(&e))?; while let Some(_) = it.next().map_err(|e| err_str(&e))? { n += 1; } }
                1 => { let mut w = grenad::Writer::memory(); s.write_into_stream_writer(&mut w).map_err(|e| err_str(&e))?; let bytes = w.into_inner().map_err(|e| e.to_string())?;
                       n = decode_file(&bytes, None).map_err(|e| format!("written file malformed: {}", e))?.entries.len(); }
                _ => { let cursors = s.into_reader_cursors().map_err(|e| err_str(&e))?; let mut mb = Merger::builder(mf); mb.extend(cursors);
                       let mut it = mb.build().into_stream_merger_iter().map_err(|e| err_str(&e))?; while let Some(_) = it.next().map_err(|e| err_str(&e))? { n += 1; } }
            }
            Ok(n) })).map_err(|_| ());
        (r, fired.get())
    };
    let mut clean_n = [0usize; 3];
    for route in 0..3 { let (clean, fired) = drive(0, 0, None, false, route); match clean { Ok(Ok(n)) if !fired => clean_n[route] = n, other => cex(format!("C12 error reported although no component failed (route {}): {:?}", route, other)) } }
    if clean_n[0] != clean_n[1] || clean_n[0] != clean_n[2] { cex(format!("C12/C07 the three consumption routes of a sorter disagree on the number of keys: {:?}", clean_n)); }
    // one verdict for every injected fault: no panic; if the fault fired the call must return an Err carrying it; if it did not
    // fire (scheduled past the last call) the outcome must be the clean one
    let judge = |what: String, route: usize, r: (Result<Result<usize, String>, ()>, bool), needle: &str| {
        match r { (Err(()), _) => cex(format!("C12 sorter panicked when {} (route {})", what, route)),
            (Ok(Ok(n)), true) => cex(format!("C12 sorter reported success ({} keys, clean run: {}) although {} (route {})", n, clean_n[route], what, route)),
            (Ok(Ok(n)), false) => if n != clean_n[route] { cex(format!("C12 sorter output has {} keys instead of {} with a fault scheduled but never reached: {} (route {})", n, clean_n[route], what, route)); },
            (Ok(Err(e)), fired) => { if needle == "injected" && !e.contains(&format!("Io[{:?}]", INJECTED_KIND)) { cex(format!("C12 the chunk-storage failure came back with another error kind than the component's ({:?}) when {} (route {}): {}", INJECTED_KIND, what, route, e)); }
                if !fired { cex(format!("C12 error reported although no component failed ({} never fired; route {}): {}", what, route, e)); } if !needle.is_empty() && !e.contains(needle) { cex(format!("C12 failure surfaced as a different error when {} (route {}): {}", what, route, e)); } } }
    };
    for n in 1..=(if tier_thorough() { 90 } else { 45 }) { let route = n % 3;
        judge(format!("the merge function failed at its call #{}", n), route, drive(n, 0, None, false, route), "injected merge failure");
        merge_faults += 1;
    }
    for c in 1..=4 { for bad in [false, true] { for route in 0..3 {
        judge(format!("the chunk creator failed at its call #{} ({})", c, if bad { "Error::InvalidFormatVersion" } else { "io error" }), route, drive(0, c, None, bad, route), if bad { "InvalidFormatVersion" } else { "injected create failure" });
        merge_faults += 1; } } }
    // exactly ONE chunk fails, at a call where the clean runs rewind / reposition it (or on the call after): this hits the
    // reopening of a chunk for a chunk merge or for the final read while every other chunk -- the merged one included -- works
    let mut at_seeks: Vec<(usize, usize)> = seek_calls.borrow().iter().flat_map(|&(no, c)| [(no, c), (no, c + 1)]).collect(); at_seeks.sort(); at_seeks.dedup();
    // per chunk: its first few repositionings (the first one is the rewind after it was written)
    let mut per_chunk: std::collections::BTreeMap<usize, usize> = Default::default();
    at_seeks.retain(|&(no, _)| { let e = per_chunk.entry(no).or_insert(0); *e += 1; *e <= (if tier_thorough() { 40 } else { 6 }) });
    for &(no, k) in at_seeks.iter() { for route in 0..3 {
        one.set(Some((no, k)));
        judge(format!("chunk #{} alone failed at its call #{} (a rewind / reposition of that chunk, or the call after it)", no, k), route, drive(0, 0, None, false, route), "injected");
        one.set(None);
        merge_faults += 1; } }
    for k in (1..=400).step_by(if tier_thorough() { 1 } else { 7 }) { let route = (k / 7) % 3;
        judge(format!("chunk storage failed at its call #{}", k), route, drive(0, 0, Some(k), false, route), "injected");
        merge_faults += 1;
    }
    // merger over failing sources that share keys (the failure hits while advancing a non-first holder of the key)
    let base = Cfg { ct: grenad::CompressionType::None, level: 0, block_size: 1024, interval: 2, levels: 2 };
    let shared = keyset(0, 90, &mut rng);
    let f0 = write_file(&base, &values_for(&shared, &mut rng, 0)); let f1 = write_file(&Cfg { levels: 0, ..base.clone() }, &values_for(&shared, &mut rng, 0));
    #[derive(Clone, Copy)] struct First; impl MergeFunction for First { type Error = std::convert::Infallible; fn merge<'a>(&self, _k: &[u8], v: &[Cow<'a, [u8]>]) -> Result<Cow<'a, [u8]>, Self::Error> { Ok(v[0].clone()) } }
    struct Counted { inner: SchedSource, calls: Rc<Cell<usize>> }
    impl std::io::Read for Counted { fn read(&mut self, b: &mut [u8]) -> std::io::Result<usize> { let r = self.inner.read(b); self.calls.set(self.inner.calls); r } }
    impl std::io::Seek for Counted { fn seek(&mut self, p: std::io::SeekFrom) -> std::io::Result<u64> { let r = self.inner.seek(p); self.calls.set(self.inner.calls); r } }
    let run_merge = |fail: Option<(usize, usize)>| -> (std::thread::Result<Result<usize, String>>, [usize; 2]) {
        let c = [Rc::new(Cell::new(0usize)), Rc::new(Cell::new(0usize))];
        let mut s0 = SchedSource::new(f0.clone(), 1, usize::MAX, false); let mut s1 = SchedSource::new(f1.clone(), 1, usize::MAX, false);
        if let Some((which, k)) = fail { if which == 0 { s0.fail_at = Some(k) } else { s1.fail_at = Some(k) } }
        let (s0, s1) = (Counted { inner: s0, calls: c[0].clone() }, Counted { inner: s1, calls: c[1].clone() });
        let r = catch_unwind(AssertUnwindSafe(|| -> Result<usize, String> {
            let mut b = Merger::builder(First); b.push(Reader::new(s0).map_err(|e| err_str(&e))?.into_cursor().map_err(|e| err_str(&e))?); b.push(Reader::new(s1).map_err(|e| err_str(&e))?.into_cursor().map_err(|e| err_str(&e))?);
            let mut it = b.build().into_stream_merger_iter().map_err(|e| err_str(&e))?; let mut n = 0; while let Some(_) = it.next().map_err(|e| err_str(&e))? { n += 1; } Ok(n) }));
        (r, [c[0].get(), c[1].get()])
    };
    let (clean, totals) = run_merge(None);
    if !matches!(clean, Ok(Ok(n)) if n == shared.len()) { cex(format!("C12 clean two-source merge did not yield the {} keys: {:?}", shared.len(), clean.map_err(|_| ()))); }
    // the I/O sequence of each source is deterministic up to the failing call, so every k <= its clean total does fire
    for which in 0..2 { for k in 1..=totals[which] {
        let (r, _) = run_merge(Some((which, k)));
        match r { Err(_) => cex(format!("C12 merger panicked when source {} failed at its call #{} of {}", which, k, totals[which])),
            Ok(Ok(n)) => cex(format!("C12 merger reported success ({} keys) although source {} failed at its call #{} of {}", n, which, k, totals[which])),
            Ok(Err(e)) => if !e.contains("injected") || !e.contains(&format!("Io[{:?}]", INJECTED_KIND)) { cex(format!("C12 merger error does not carry the failure: {}", e)); } }
        merge_faults += 1; } }
    let _ = std::panic::take_hook();
    stat("sink_fault_points", write_faults); stat("source_fault_points", read_faults); stat("merge_create_chunk_fault_points", merge_faults);
}
