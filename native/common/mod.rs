//! Shared helpers for the bounded stand-ins / witness searches (public API only).
//! The decoder below is written from the C09 statement and shares no code with grenad.
#![allow(dead_code)]
use std::collections::BTreeMap;
use std::convert::TryInto;
use std::io::{self, Read, Seek, SeekFrom, Write};

pub fn tier_thorough() -> bool { std::env::var("VERIF_TIER").map(|t| t == "thorough").unwrap_or(false) }
/// What an error returned by grenad *is*, independent of how grenad chooses to print it: the variant, and for the variants that
/// wrap a component's error that error's own text (C12 fixes what is returned, not its Display)
pub fn err_str<U: std::fmt::Display>(e: &grenad::Error<U>) -> String {
    match e {
        grenad::Error::Io(i) => format!("Io[{:?}] {}", i.kind(), i),
        grenad::Error::Merge(u) => format!("Merge {}", u),
        grenad::Error::InvalidCompressionType => "InvalidCompressionType".to_string(),
        grenad::Error::InvalidFormatVersion => "InvalidFormatVersion".to_string(),
    }
}
/// built with the dev profile (debug assertions / overflow checks on): tests reduce their volume
pub fn profile_dev() -> bool { std::env::var("VERIF_PROFILE").map(|t| t == "dev").unwrap_or(false) }
pub fn seed() -> u64 { std::env::var("VERIF_SEED").ok().and_then(|s| s.parse().ok()).unwrap_or(0) }

pub struct Rng(pub u64);
impl Rng {
    pub fn new(s: u64) -> Rng { Rng(s.wrapping_mul(0x9E3779B97F4A7C15) ^ 0xD1B54A32D192ED03) }
    pub fn next(&mut self) -> u64 { self.0 ^= self.0 << 13; self.0 ^= self.0 >> 7; self.0 ^= self.0 << 17; self.0 }
    pub fn below(&mut self, n: u64) -> u64 { if n == 0 { 0 } else { self.next() % n } }
    pub fn bytes(&mut self, n: usize, alphabet: &[u8]) -> Vec<u8> { (0..n).map(|_| alphabet[self.below(alphabet.len() as u64) as usize]).collect() }
}

pub fn stat<T: std::fmt::Debug>(k: &str, v: T) { println!("\nVERIF-STAT {}={:?}", k, v); }
pub fn cex(msg: String) -> ! { println!("\nVERIF-CEX {}", msg.replace('\n', " ")); panic!("{}", msg) }
pub fn hex(b: &[u8]) -> String { if b.len() > 24 { format!("{}..({}B)", b[..24].iter().map(|x| format!("{:02x}", x)).collect::<String>(), b.len()) } else { b.iter().map(|x| format!("{:02x}", x)).collect() } }

pub type Entries = Vec<(Vec<u8>, Vec<u8>)>;

#[derive(Clone, Debug)]
pub struct Cfg { pub ct: grenad::CompressionType, pub level: u32, pub block_size: usize, pub interval: usize, pub levels: u8 }
impl Cfg {
    pub fn builder(&self) -> grenad::WriterBuilder {
        let mut b = grenad::WriterBuilder::new();
        b.compression_type(self.ct).compression_level(self.level).block_size(self.block_size)
            .index_key_interval(std::num::NonZeroUsize::new(self.interval).unwrap()).index_levels(self.levels);
        b
    }
}
pub fn codecs() -> Vec<grenad::CompressionType> {
    use grenad::CompressionType::*;
    vec![None, Snappy, SnappyPre05, Zlib, Lz4, Zstd]
}
pub fn write_file(cfg: &Cfg, es: &Entries) -> Vec<u8> {
    let mut w = cfg.builder().memory();
    for (k, v) in es { w.insert(k, v).unwrap(); }
    w.into_inner().unwrap()
}

/// Key sets designed to reach deep index trees with few entries (long keys) and the corner cases of the
/// property statements (empty key, prefix-related keys, 0xFF bytes, keys differing by trailing zeros).
pub fn keyset(kind: usize, n: usize, rng: &mut Rng) -> Vec<Vec<u8>> {
    let mut set = std::collections::BTreeSet::new();
    match kind % 5 {
        0 => { for i in 0..n { let mut k = (i as u32 * 3 + 1).to_be_bytes().to_vec(); k.resize(4 + 180 + (i % 7) * 5, b'k'); set.insert(k); } }
        1 => { // short keys over a tiny alphabet: many prefix relations, the empty key, trailing zeros
            set.insert(vec![]);
            let n = n.min(100); while set.len() < n { let l = rng.below(5) as usize; set.insert(rng.bytes(l, &[0, 1, 0xFF])); }
        }
        2 => { while set.len() < n { let l = 150 + rng.below(120) as usize; let mut k = rng.bytes(3, &[0, 7, 0xFE, 0xFF]); k.extend(rng.bytes(l, b"abc")); set.insert(k); } }
        3 => { for i in 0..n { set.insert(((i * 2) as u32).to_be_bytes().to_vec()); } }
        _ => { while set.len() < n { let l = rng.below(300) as usize; set.insert(rng.bytes(l, &[0, 1, 2, 0x7F, 0x80, 0xFF])); } }
    }
    set.into_iter().collect()
}
pub fn values_for(keys: &[Vec<u8>], rng: &mut Rng, big_every: usize) -> Entries {
    keys.iter().enumerate().map(|(i, k)| {
        let l = if big_every > 0 && i % big_every == big_every - 1 { 1500 + rng.below(3000) as usize } else { rng.below(60) as usize };
        let mut v = rng.bytes(l, b"0123456789xyz"); if l > 0 { v[0] = (i % 251) as u8; }
        (k.clone(), v)
    }).collect()
}
pub fn cfgs(rng: &mut Rng, n: usize) -> Vec<Cfg> {
    let cs = codecs();
    let mut out = vec![];
    for i in 0..n {
        out.push(Cfg { ct: cs[i % cs.len()], level: [0, 1, 3, 6][rng.below(4) as usize], block_size: [0, 1024, 1500, 4096][rng.below(4) as usize],
                       interval: [1, 2, 3, 8, 100][rng.below(5) as usize], levels: [0, 1, 2, 3, 5][i % 5] });
    }
    out
}

// ---------------------------------------------------------------------------------------------
// independent decoder (C09)
// ---------------------------------------------------------------------------------------------
#[derive(Debug, Clone)]
pub struct Meta { pub version: u8, pub root: u64, pub codec: u8, pub count: u64, pub levels: u8 }
#[derive(Debug, Clone)]
pub struct BlockInfo { pub offset: u64, pub depth: usize, pub raw_len: usize, pub entries: Entries, pub offsets: Vec<u64> }
#[derive(Debug)]
pub struct Decoded { pub meta: Meta, pub entries: Entries, pub blocks: Vec<BlockInfo>, pub body_end: u64 }

pub fn parse_trailer(b: &[u8]) -> Result<Meta, String> {
    if b.len() < 4 { return Err("shorter than a magic number".into()); }
    let magic = u32::from_le_bytes(b[b.len() - 4..].try_into().unwrap());
    match magic {
        0x6723D4C4 => {
            if b.len() < 22 { return Err("truncated v2 trailer".into()); }
            let t = &b[b.len() - 22..];
            if t[8] > 5 { return Err("unknown codec".into()); }
            Ok(Meta { version: 2, root: u64::from_le_bytes(t[0..8].try_into().unwrap()), codec: t[8], count: u64::from_le_bytes(t[9..17].try_into().unwrap()), levels: t[17] })
        }
        0x76324D4C => {
            if b.len() < 21 { return Err("truncated v1 trailer".into()); }
            let t = &b[b.len() - 21..];
            if t[8] > 5 { return Err("unknown codec".into()); }
            Ok(Meta { version: 1, root: u64::from_le_bytes(t[0..8].try_into().unwrap()), codec: t[8], count: u64::from_le_bytes(t[9..17].try_into().unwrap()), levels: 0 })
        }
        _ => Err("unknown magic".into()),
    }
}
fn leb(b: &[u8], pos: &mut usize) -> Result<usize, String> {
    let mut v: u64 = 0;
    for i in 0..5 {
        let x = *b.get(*pos).ok_or("varint past end")?; *pos += 1;
        v |= ((x & 0x7f) as u64) << (7 * i);
        if x & 0x80 == 0 { return Ok(v as usize); }
    }
    Err("varint longer than 5 bytes".into())
}
pub fn decompress(codec: u8, data: &[u8]) -> Result<Vec<u8>, String> {
    let mut out = Vec::new();
    match codec {
        0 => out.extend_from_slice(data),
        1 => { out = snap::raw::Decoder::new().decompress_vec(data).map_err(|e| e.to_string())?; }
        2 => { flate2::read::ZlibDecoder::new(data).read_to_end(&mut out).map_err(|e| e.to_string())?; }
        3 => { lz4_flex::frame::FrameDecoder::new(data).read_to_end(&mut out).map_err(|e| e.to_string())?; }
        4 => { out = zstd::stream::decode_all(data).map_err(|e| e.to_string())?; }
        5 => { snap::read::FrameDecoder::new(data).read_to_end(&mut out).map_err(|e| e.to_string())?; }
        _ => return Err("codec".into()),
    }
    Ok(out)
}
pub fn decode_block(file: &[u8], offset: u64, codec: u8, depth: usize) -> Result<(BlockInfo, u64), String> {
    let o = offset as usize;
    if o + 8 > file.len() { return Err(format!("block offset {} past end", offset)); }
    let len = u64::from_be_bytes(file[o..o + 8].try_into().unwrap()) as usize;
    if o + 8 + len > file.len() { return Err(format!("block at {} (len {}) past end", offset, len)); }
    let raw = decompress(codec, &file[o + 8..o + 8 + len])?;
    if raw.len() < 4 { return Err("block shorter than its slot count".into()); }
    let n = u32::from_be_bytes(raw[raw.len() - 4..].try_into().unwrap()) as usize;
    if n == 0 { return Err("no offset slot (first slot must be 0)".into()); }
    if raw.len() < 4 + 8 * n { return Err("offset table past start".into()); }
    let pend = raw.len() - 4 - 8 * n;
    let offsets: Vec<u64> = (0..n).map(|j| u64::from_be_bytes(raw[pend + 8 * j..pend + 8 * j + 8].try_into().unwrap())).collect();
    let mut entries = vec![]; let mut starts = vec![]; let mut pos = 0;
    while pos < pend {
        starts.push(pos as u64);
        let kl = leb(&raw[..pend], &mut pos)?; let vl = leb(&raw[..pend], &mut pos)?;
        if pos + kl + vl > pend { return Err("entry past payload".into()); }
        entries.push((raw[pos..pos + kl].to_vec(), raw[pos + kl..pos + kl + vl].to_vec())); pos += kl + vl;
    }
    Ok((BlockInfo { offset, depth, raw_len: raw.len(), entries, offsets }, (o + 8 + len) as u64))
}
/// Checks per-block well-formedness for interval `iv` (None = do not check the slot positions).
pub fn check_block(b: &BlockInfo, iv: Option<usize>) -> Result<(), String> {
    if b.offsets[0] != 0 { return Err(format!("block@{}: first offset slot is {} not 0", b.offset, b.offsets[0])); }
    for w in b.entries.windows(2) { if w[0].0 >= w[1].0 { return Err(format!("block@{}: keys not strictly ascending: {} then {}", b.offset, hex(&w[0].0), hex(&w[1].0))); } }
    if iv.is_some() {
        // "one offset per index interval": the interval is not recorded in the file (and a writer may use another one than it was
        // asked for), so the table must be regular for SOME interval s >= 1: slot j holds the start of entry j*s, no slot is missing
        let n = b.entries.len();
        let mut pos = 0u64; let mut starts = vec![];
        for (k, v) in &b.entries { starts.push(pos); pos += (lebn(k.len()) + lebn(v.len()) + k.len() + v.len()) as u64; }
        if n == 0 { if b.offsets.len() != 1 { return Err(format!("block@{}: {} slots for an empty block", b.offset, b.offsets.len())); } }
        else if b.offsets.len() > 1 {
            let s = match starts.iter().position(|st| *st == b.offsets[1]) { Some(s) if s >= 1 => s, _ => return Err(format!("block@{}: slot 1 = {} is not the start of any entry after the first", b.offset, b.offsets[1])) };
            let want = (n - 1) / s + 1;
            if b.offsets.len() != want { return Err(format!("block@{}: {} slots for {} entries at the interval {} its first two slots show", b.offset, b.offsets.len(), n, s)); }
            for (j, o) in b.offsets.iter().enumerate() { if *o != starts[j * s] { return Err(format!("block@{}: slot {} = {} but entry {} starts at {} (interval {})", b.offset, j, o, j * s, starts[j * s], s)); } }
        }
    }
    Ok(())
}
pub fn lebn(n: usize) -> usize { if n < 1 << 7 { 1 } else if n < 1 << 14 { 2 } else if n < 1 << 21 { 3 } else if n < 1 << 28 { 4 } else { 5 } }

/// Full structural decode: walks the index tree from the root; checks every C09 clause.
pub fn decode_file(file: &[u8], iv: Option<usize>) -> Result<Decoded, String> {
    let meta = parse_trailer(file)?;
    let tlen = if meta.version == 2 { 22 } else { 21 };
    let body_end = (file.len() - tlen) as u64;
    let mut blocks = vec![]; let mut entries = vec![];
    fn walk(file: &[u8], meta: &Meta, off: u64, depth: usize, iv: Option<usize>, blocks: &mut Vec<BlockInfo>, entries: &mut Entries) -> Result<Option<Vec<u8>>, String> {
        let (b, _) = decode_block(file, off, meta.codec, depth)?;
        check_block(&b, iv)?;
        let last = b.entries.last().map(|e| e.0.clone());
        if depth == meta.levels as usize + 1 {
            if b.entries.is_empty() { return Err(format!("empty data block at {}", off)); }
            entries.extend(b.entries.iter().cloned());
        } else {
            if b.entries.is_empty() && depth > 0 { return Err(format!("empty index block at depth {}", depth)); }
            for (k, v) in b.entries.clone() {
                if v.len() != 8 { return Err(format!("index value of {} bytes at depth {}", v.len(), depth)); }
                let child = u64::from_be_bytes(v[..].try_into().unwrap());
                let cl = walk(file, meta, child, depth + 1, iv, blocks, entries)?;
                if cl.as_deref() != Some(&k[..]) { return Err(format!("index key {} at depth {} is not the last key {:?} of its child at {}", hex(&k), depth, cl.map(|c| hex(&c)), child)); }
            }
        }
        blocks.push(b);
        Ok(last)
    }
    walk(file, &meta, meta.root, 0, iv, &mut blocks, &mut entries)?;
    // blocks are back to back from offset 0 to the trailer, each reachable exactly once
    let mut offs: Vec<(u64, u64)> = vec![];
    for b in &blocks { let (_, end) = decode_block(file, b.offset, meta.codec, b.depth)?; offs.push((b.offset, end)); }
    offs.sort();
    let mut pos = 0u64;
    for (s, e) in &offs { if *s != pos { return Err(format!("gap or overlap: block at {} but previous ended at {}", s, pos)); } pos = *e; }
    if pos != body_end { return Err(format!("blocks end at {} but trailer starts at {}", pos, body_end)); }
    if meta.count != entries.len() as u64 { return Err(format!("trailer count {} but {} entries", meta.count, entries.len())); }
    for w in entries.windows(2) { if w[0].0 >= w[1].0 { return Err("entries not strictly ascending across blocks".into()); } }
    Ok(Decoded { meta, entries, blocks, body_end })
}

// ---------------------------------------------------------------------------------------------
// instrumented I/O
// ---------------------------------------------------------------------------------------------
/// A sink that accepts data in pieces chosen by a schedule, optionally reporting Interrupted, optionally failing at call k.
pub struct SchedSink { pub data: Vec<u8>, pub rng: Rng, pub max_piece: usize, pub interrupts: bool, pub fail_at: Option<usize>, pub calls: usize, pub fail_kind: io::ErrorKind, pub flushed_at: Option<usize> }
impl SchedSink {
    pub fn new(seed: u64, max_piece: usize, interrupts: bool) -> SchedSink { SchedSink { data: vec![], rng: Rng::new(seed), max_piece, interrupts, fail_at: None, calls: 0, fail_kind: io::ErrorKind::Other, flushed_at: None } }
}
impl Write for SchedSink {
    fn write(&mut self, buf: &[u8]) -> io::Result<usize> {
        self.calls += 1;
        if Some(self.calls) == self.fail_at { return Err(io::Error::new(self.fail_kind, "injected write failure")); }
        if self.interrupts && self.rng.below(3) == 0 { return Err(io::Error::new(io::ErrorKind::Interrupted, "interrupted")); }
        if buf.is_empty() { return Ok(0); }
        let n = 1 + self.rng.below(self.max_piece.min(buf.len()) as u64) as usize;
        self.data.extend_from_slice(&buf[..n]);
        Ok(n)
    }
    fn flush(&mut self) -> io::Result<()> {
        self.calls += 1;
        if Some(self.calls) == self.fail_at { return Err(io::Error::new(self.fail_kind, "injected flush failure")); }
        self.flushed_at = Some(self.data.len());
        Ok(())
    }
}
/// A source serving reads in short pieces / with interruptions, counting seeks and reads, optionally failing at call k.
/// the kind every injected source / chunk-storage failure carries: a kind grenad has no reason to produce itself, so that an error
/// that was re-wrapped (new kind, old text) is told from the component's own error
pub const INJECTED_KIND: io::ErrorKind = io::ErrorKind::ConnectionReset;
pub struct SchedSource { pub data: Vec<u8>, pub pos: u64, pub rng: Rng, pub max_piece: usize, pub interrupts: bool, pub fail_at: Option<usize>, pub calls: usize,
                         pub seeks: usize, pub bytes_read: usize, pub abs_seeks: Vec<u64>, pub write_ok: bool, pub reads_at: Vec<u64> }
impl SchedSource {
    pub fn new(data: Vec<u8>, seed: u64, max_piece: usize, interrupts: bool) -> SchedSource {
        SchedSource { data, pos: 0, rng: Rng::new(seed), max_piece, interrupts, fail_at: None, calls: 0, seeks: 0, bytes_read: 0, abs_seeks: vec![], write_ok: true, reads_at: vec![] }
    }
    pub fn reset_counters(&mut self) { self.seeks = 0; self.bytes_read = 0; self.abs_seeks.clear(); self.reads_at.clear(); }
}
impl Read for SchedSource {
    fn read(&mut self, buf: &mut [u8]) -> io::Result<usize> {
        self.calls += 1;
        if Some(self.calls) == self.fail_at { return Err(io::Error::new(INJECTED_KIND, "injected read failure")); }
        if self.interrupts && self.rng.below(3) == 0 { return Err(io::Error::new(io::ErrorKind::Interrupted, "interrupted")); }
        let avail = self.data.len().saturating_sub(self.pos as usize);
        if buf.is_empty() || avail == 0 { return Ok(0); }
        let n = (1 + self.rng.below(self.max_piece as u64) as usize).min(buf.len()).min(avail);
        self.reads_at.push(self.pos);
        buf[..n].copy_from_slice(&self.data[self.pos as usize..self.pos as usize + n]);
        self.pos += n as u64; self.bytes_read += n;
        Ok(n)
    }
}
impl Seek for SchedSource {
    fn seek(&mut self, p: SeekFrom) -> io::Result<u64> {
        self.calls += 1; self.seeks += 1;
        if Some(self.calls) == self.fail_at { return Err(io::Error::new(INJECTED_KIND, "injected seek failure")); }
        let np = match p { SeekFrom::Start(n) => { self.abs_seeks.push(n); n as i128 } SeekFrom::End(d) => self.data.len() as i128 + d as i128, SeekFrom::Current(d) => self.pos as i128 + d as i128 };
        if np < 0 { return Err(io::Error::new(io::ErrorKind::InvalidInput, "negative seek")); }
        self.pos = np as u64; Ok(self.pos)
    }
}
impl Write for SchedSource {
    fn write(&mut self, buf: &[u8]) -> io::Result<usize> {
        self.calls += 1;
        if Some(self.calls) == self.fail_at { return Err(io::Error::new(INJECTED_KIND, "injected write failure")); }
        if self.interrupts && self.rng.below(3) == 0 { return Err(io::Error::new(io::ErrorKind::Interrupted, "interrupted")); }
        if buf.is_empty() { return Ok(0); }
        let n = 1 + self.rng.below(self.max_piece.min(buf.len()) as u64) as usize;
        let p = self.pos as usize;
        if self.data.len() < p + n { self.data.resize(p + n, 0); }
        self.data[p..p + n].copy_from_slice(&buf[..n]); self.pos += n as u64;
        Ok(n)
    }
    fn flush(&mut self) -> io::Result<()> { self.calls += 1; if Some(self.calls) == self.fail_at { return Err(io::Error::new(INJECTED_KIND, "injected flush failure")); } Ok(()) }
}

pub fn model(es: &Entries) -> BTreeMap<Vec<u8>, Vec<u8>> { es.iter().cloned().collect() }
pub fn own(e: Option<(&[u8], &[u8])>) -> Option<(Vec<u8>, Vec<u8>)> { e.map(|(k, v)| (k.to_vec(), v.to_vec())) }

/// probes covering every equivalence class of a sorted key list: each key, each gap, before first, after last,
/// plus prefixes/extensions
pub fn probes(keys: &[Vec<u8>]) -> Vec<Vec<u8>> {
    let mut p = std::collections::BTreeSet::new();
    p.insert(vec![]); p.insert(vec![0xFF; 4]); p.insert(vec![0]);
    for k in keys {
        p.insert(k.clone());
        let mut e = k.clone(); e.push(0); p.insert(e);
        let mut e = k.clone(); e.push(0xFF); p.insert(e);
        if !k.is_empty() { p.insert(k[..k.len() - 1].to_vec()); let mut d = k.clone(); let l = d.len() - 1; if d[l] > 0 { d[l] -= 1; p.insert(d.clone()); d.push(0xFF); p.insert(d); } }
    }
    p.into_iter().collect()
}
