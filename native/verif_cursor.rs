//! Bounded stand-ins / witness searches for the reader-side properties (C02, C03, C04, C05, C16).
mod common;
use common::*;
use grenad::{Reader, ReaderCursor};
use std::io::Cursor;
use std::ops::Bound;

fn files(rng: &mut Rng) -> Vec<(Cfg, Entries)> {
    let thorough = tier_thorough();
    let mut out = vec![];
    let base = Cfg { ct: grenad::CompressionType::None, level: 0, block_size: 1024, interval: 2, levels: 3 };
    // deep trees with few entries (long keys), every index depth, several intervals
    for (i, levels) in [0u8, 1, 2, 3, 4].iter().enumerate() {
        let n = if thorough { 700 } else { 330 };
        out.push((Cfg { levels: *levels, interval: [1, 2, 3, 8, 5][i], ..base.clone() }, values_for(&keyset(0, n, rng), rng, 0)));
    }
    out.push((Cfg { levels: 2, interval: 4, ct: grenad::CompressionType::Snappy, ..base.clone() }, values_for(&keyset(2, 260, rng), rng, 0)));
    out.push((Cfg { levels: 2, interval: 3, ..base.clone() }, values_for(&keyset(1, 90, rng), rng, 0)));
    out.push((Cfg { levels: 1, interval: 8, ..base.clone() }, values_for(&keyset(4, 200, rng), rng, 7)));
    out.push((Cfg { levels: 3, interval: 1, ..base.clone() }, values_for(&keyset(3, 2500, rng), rng, 0)));
    // entry counts that make blocks hold exact multiples of the interval (4-byte keys, 58-byte values: 16 per block)
    let ks = keyset(3, 400, rng);
    out.push((Cfg { levels: 2, interval: 8, ..base.clone() }, ks.iter().map(|k| (k.clone(), vec![5u8; 58])).collect()));
    out.push((Cfg { levels: 0, interval: 4, ..base.clone() }, ks.iter().map(|k| (k.clone(), vec![5u8; 58])).collect()));
    out.push((base.clone(), vec![]));
    out.push((base.clone(), vec![(vec![], vec![1])]));
    out.push((Cfg { levels: 0, ..base.clone() }, vec![(vec![1], vec![]), (vec![1, 0], vec![2]), (vec![1, 0, 0], vec![3])]));
    if thorough { for (i, c) in cfgs(rng, 12).into_iter().enumerate() { out.push((c, values_for(&keyset(i, 500, rng), rng, 11))); } }
    out
}
fn open(bytes: &[u8]) -> ReaderCursor<Cursor<&[u8]>> { Reader::new(Cursor::new(bytes)).unwrap().into_cursor().unwrap() }
fn ceil(es: &Entries, q: &[u8]) -> Option<usize> { es.iter().position(|e| &e.0[..] >= q) }
fn floor(es: &Entries, q: &[u8]) -> Option<usize> { es.iter().rposition(|e| &e.0[..] <= q) }
fn find(es: &Entries, q: &[u8]) -> Option<usize> { es.iter().position(|e| &e.0[..] == q) }
fn at(es: &Entries, i: Option<usize>) -> Option<(Vec<u8>, Vec<u8>)> { i.map(|i| es[i].clone()) }

#[test]
fn c02_seeks() {
    let mut rng = Rng::new(seed() + 11);
    let (mut nfiles, mut nprobes) = (0, 0);
    for (cfg, es) in files(&mut rng) {
        let bytes = write_file(&cfg, &es);
        let keys: Vec<Vec<u8>> = es.iter().map(|e| e.0.clone()).collect();
        let ps = probes(&keys);
        let step = if tier_thorough() || ps.len() < 600 { 1 } else { ps.len() / 600 };
        let mut reused = open(&bytes);
        for q in ps.iter().step_by(step) {
            for fresh in [true, false] {
                let mut c = if fresh { open(&bytes) } else { reused.reset(); reused.clone() };
                let ge = own(c.move_on_key_greater_than_or_equal_to(q).unwrap_or_else(|e| cex(format!("C02 GE error {} probe {} cfg={:?}", e, hex(q), cfg))));
                if ge != at(&es, ceil(&es, q)) { cex(format!("C02 GE({}) returned {:?} expected {:?} cfg={:?} n={}", hex(q), ge.map(|e| hex(&e.0)), at(&es, ceil(&es, q)).map(|e| hex(&e.0)), cfg, es.len())); }
                let mut c = if fresh { open(&bytes) } else { reused.reset(); reused.clone() };
                let le = own(c.move_on_key_lower_than_or_equal_to(q).unwrap_or_else(|e| cex(format!("C02 LE error {} probe {} cfg={:?}", e, hex(q), cfg))));
                if le != at(&es, floor(&es, q)) { cex(format!("C02 LE({}) returned {:?} expected {:?} cfg={:?} n={}", hex(q), le.map(|e| hex(&e.0)), at(&es, floor(&es, q)).map(|e| hex(&e.0)), cfg, es.len())); }
                let mut c = if fresh { open(&bytes) } else { reused.reset(); reused.clone() };
                let eq = own(c.move_on_key_equal_to(q).unwrap_or_else(|e| cex(format!("C02 EQ error {} probe {} cfg={:?}", e, hex(q), cfg))));
                if eq != at(&es, find(&es, q)) { cex(format!("C02 EQ({}) returned {:?} expected {:?} cfg={:?}", hex(q), eq.map(|e| hex(&e.0)), at(&es, find(&es, q)).map(|e| hex(&e.0)), cfg)); }
            }
            nprobes += 1;
        }
        nfiles += 1;
    }
    stat("files", nfiles); stat("probes", nprobes);
}

#[derive(Clone, Debug)]
enum Op { First, Last, Next, Prev, Ge(Vec<u8>), Le(Vec<u8>), Eq(Vec<u8>), Reset, Clone, Current }
#[derive(Clone, Copy, PartialEq, Debug)]
enum Pos { Unset, At(usize), Unspecified }

/// Applies `op` to the real cursor and to the model. Returns Err(description) on disagreement.
fn step(c: &mut ReaderCursor<Cursor<&[u8]>>, pos: &mut Pos, es: &Entries, op: &Op, literal_current: bool, deviations: &mut Vec<String>, last_kind: &mut String) -> Result<(), String> {
    thread_local! { static LAST_RET: std::cell::Cell<Option<usize>> = std::cell::Cell::new(None); }
    if let Pos::At(i) = *pos { LAST_RET.with(|l| l.set(Some(i))); }
    if let (Pos::Unset, Op::Reset) = (*pos, op) { LAST_RET.with(|l| l.set(None)); }
    let n = es.len();
    let some = |i: usize| Some(es[i].clone());
    let mut check = |got: Option<(Vec<u8>, Vec<u8>)>, want: Option<usize>, what: &str, pos: &mut Pos| -> Result<(), String> {
        let w = want.and_then(|i| some(i));
        if got != w { return Err(format!("{} returned {:?} expected {:?}", what, got.map(|e| hex(&e.0)), w.map(|e| hex(&e.0)))); }
        *pos = match want { Some(i) => Pos::At(i), None => Pos::Unspecified };
        Ok(())
    };
    match op {
        Op::First => { let g = own(c.move_on_first().map_err(|e| e.to_string())?); *last_kind = "first".into(); check(g, if n > 0 { Some(0) } else { None }, "first", pos) }
        Op::Last => { let g = own(c.move_on_last().map_err(|e| e.to_string())?); *last_kind = "last".into(); check(g, if n > 0 { Some(n - 1) } else { None }, "last", pos) }
        Op::Next => match *pos {
            Pos::Unspecified => Ok(()), // relative move after a None: left unspecified, not issued
            Pos::Unset => { let g = own(c.move_on_next().map_err(|e| e.to_string())?); *last_kind = "next-from-unset".into(); check(g, if n > 0 { Some(0) } else { None }, "next (never positioned)", pos) }
            Pos::At(i) => { let g = own(c.move_on_next().map_err(|e| e.to_string())?); *last_kind = "next-past-end".into(); check(g, if i + 1 < n { Some(i + 1) } else { None }, "next", pos) }
        },
        Op::Prev => match *pos {
            Pos::Unspecified => Ok(()),
            Pos::Unset => { let g = own(c.move_on_prev().map_err(|e| e.to_string())?); *last_kind = "prev-from-unset".into(); check(g, if n > 0 { Some(n - 1) } else { None }, "prev (never positioned)", pos) }
            Pos::At(i) => { let g = own(c.move_on_prev().map_err(|e| e.to_string())?); *last_kind = "prev-before-first".into(); check(g, if i > 0 { Some(i - 1) } else { None }, "prev", pos) }
        },
        Op::Ge(q) => { let g = own(c.move_on_key_greater_than_or_equal_to(q).map_err(|e| e.to_string())?); *last_kind = "GE-miss".into(); check(g, ceil(es, q), &format!("GE({})", hex(q)), pos) }
        Op::Le(q) => { let g = own(c.move_on_key_lower_than_or_equal_to(q).map_err(|e| e.to_string())?); *last_kind = "LE-miss".into(); check(g, floor(es, q), &format!("LE({})", hex(q)), pos) }
        Op::Eq(q) => { let g = own(c.move_on_key_equal_to(q).map_err(|e| e.to_string())?); *last_kind = "EQ-miss".into(); check(g, find(es, q), &format!("EQ({})", hex(q)), pos) }
        Op::Reset => { c.reset(); *pos = Pos::Unset; *last_kind = "reset".into(); LAST_RET.with(|l| l.set(None)); Ok(()) }
        Op::Clone => { let d = c.clone(); let old = std::mem::replace(c, d); drop(old); Ok(()) } // continue on the clone
        Op::Current => {
            let g = own(c.current());
            match *pos {
                Pos::At(i) => if g != some(i) { return Err(format!("current returned {:?} expected {:?}", g.map(|e| hex(&e.0)), hex(&es[i].0))); },
                Pos::Unset => if g.is_some() { return Err("current is Some on a never-positioned / reset cursor".into()); },
                Pos::Unspecified => if literal_current { let want = LAST_RET.with(|l| l.get()).map(|i| es[i].clone()); if g != want { if !deviations.contains(last_kind) { deviations.push(last_kind.clone()); } } },
            }
            Ok(())
        }
    }
}

fn gen_op(rng: &mut Rng, ps: &[Vec<u8>]) -> Op {
    match rng.below(16) {
        0 => Op::First, 1 => Op::Last, 2..=5 => Op::Next, 6..=8 => Op::Prev,
        9 => Op::Ge(ps[rng.below(ps.len() as u64) as usize].clone()), 10 => Op::Le(ps[rng.below(ps.len() as u64) as usize].clone()),
        11 => Op::Eq(ps[rng.below(ps.len() as u64) as usize].clone()), 12 => Op::Reset, 13 => Op::Clone, _ => Op::Current,
    }
}

fn run_histories(literal: bool) -> (usize, usize, Vec<String>) {
    let mut rng = Rng::new(seed() + 12);
    let (mut hist, mut ops) = (0, 0);
    let mut deviations = vec![];
    for (cfg, es) in files(&mut rng) {
        let bytes = write_file(&cfg, &es);
        let keys: Vec<Vec<u8>> = es.iter().map(|e| e.0.clone()).collect();
        let ps = probes(&keys);
        let nh = if tier_thorough() { 300 } else { 60 };
        for h in 0..nh {
            let mut c = open(&bytes); let mut pos = Pos::Unset; let mut trace: Vec<String> = vec![]; let mut lk = String::new();
            { let mut d = vec![]; let mut k = String::new(); let mut p0 = Pos::Unset; let _ = step(&mut open(&bytes), &mut p0, &es, &Op::Reset, false, &mut d, &mut k); }
            let len = 8 + rng.below(60) as usize;
            // long runs of next/prev so that relative moves cross several index blocks between absolute moves
            let mut i = 0;
            while i < len {
                let op = gen_op(&mut rng, &ps);
                let reps = if matches!(op, Op::Next | Op::Prev) && h % 3 == 0 { 1 + rng.below(200) as usize } else { 1 };
                for _ in 0..reps {
                    trace.push(match &op { Op::Ge(q) => format!("GE({})", hex(q)), Op::Le(q) => format!("LE({})", hex(q)), Op::Eq(q) => format!("EQ({})", hex(q)), o => format!("{:?}", o) });
                    if let Err(e) = step(&mut c, &mut pos, &es, &op, literal, &mut deviations, &mut lk) {
                        let t = if trace.len() > 14 { format!("...({} ops) {}", trace.len() - 14, trace[trace.len() - 14..].join(",")) } else { trace.join(",") };
                        cex(format!("C03 {} after history [{}] cfg={:?} n={}", e, t, cfg, es.len()));
                    }
                    ops += 1;
                }
                i += 1;
            }
            hist += 1;
        }
        // the documented stale-offset history: first, first, next x N (crossing index blocks), first
        let mut c = open(&bytes); let mut pos = Pos::Unset; let mut lk = String::new();
        for op in [Op::First, Op::First].iter().chain(std::iter::repeat(&Op::Next).take(es.len())).chain([Op::First, Op::Last, Op::Last].iter()).chain(std::iter::repeat(&Op::Prev).take(es.len())).chain([Op::Last, Op::First].iter()) {
            if let Err(e) = step(&mut c, &mut pos, &es, op, literal, &mut deviations, &mut lk) { cex(format!("C03 {} in the full-sweep history (first,first,next*,first,last,last,prev*,last,first) cfg={:?} n={}", e, cfg, es.len())); }
        }
        // clone independence: moving the original does not move the clone and vice versa
        if es.len() > 3 {
            let mut a = open(&bytes); a.move_on_key_greater_than_or_equal_to(&keys[keys.len() / 2]).unwrap();
            let mut b = a.clone();
            for _ in 0..keys.len() { a.move_on_next().unwrap(); }
            let mut pos = Pos::At(keys.len() / 2); let mut lk = String::new();
            for op in [Op::Current, Op::Next, Op::Next, Op::Prev, Op::Prev, Op::Prev] { if let Err(e) = step(&mut b, &mut pos, &es, &op, false, &mut deviations, &mut lk) { cex(format!("C03 clone does not continue independently: {} cfg={:?}", e, cfg)); } }
            let mut b2 = b.clone(); let mut pos2 = pos;
            for _ in 0..es.len() { b2.move_on_prev().unwrap(); }
            let _ = pos2; pos2 = pos;
            for op in [Op::Current, Op::Next] { if let Err(e) = step(&mut b, &mut pos2, &es, &op, false, &mut deviations, &mut lk) { cex(format!("C03 original disturbed by its clone: {} cfg={:?}", e, cfg)); } }
            // long relative walk on a clone (clone must carry the index position)
            let mut d = open(&bytes); d.move_on_first().unwrap(); let mut e2 = d.clone(); let mut p = Pos::At(0);
            for _ in 0..es.len() { if let Err(e) = step(&mut e2, &mut p, &es, &Op::Next, false, &mut deviations, &mut lk) { cex(format!("C03 clone walk: {} cfg={:?}", e, cfg)); } }
        }
    }
    (hist, ops, deviations)
}

#[test]
fn c03_histories() {
    let (h, o, _) = run_histories(false);
    stat("histories", h); stat("operations", o);
}

/// Literal reading of "current equals the last returned entry" after an operation that returned None
/// (recorded finding F4, see known_findings.txt): reports the *set* of operation kinds after which current() is Some.
#[test]
fn c03_current_after_none_literal() {
    let (_, _, mut dev) = run_histories(true);
    dev.sort();
    stat("deviating_kinds", dev.clone());
    if !dev.is_empty() { cex(format!("C03-literal current() differs from the last returned entry after a None-returning operation; deviating-kinds={}", dev.join("+"))); }
}

fn bounds_for(ps: &[Vec<u8>], rng: &mut Rng) -> (Bound<Vec<u8>>, Bound<Vec<u8>>) {
    let mut b = |rng: &mut Rng| match rng.below(3) { 0 => Bound::Unbounded, 1 => Bound::Included(ps[rng.below(ps.len() as u64) as usize].clone()), _ => Bound::Excluded(ps[rng.below(ps.len() as u64) as usize].clone()) };
    (b(rng), b(rng))
}
fn in_range(k: &[u8], r: &(Bound<Vec<u8>>, Bound<Vec<u8>>)) -> bool {
    (match &r.0 { Bound::Unbounded => true, Bound::Included(a) => k >= &a[..], Bound::Excluded(a) => k > &a[..] }) && (match &r.1 { Bound::Unbounded => true, Bound::Included(b) => k <= &b[..], Bound::Excluded(b) => k < &b[..] })
}

#[test]
fn c04_ranges() {
    let mut rng = Rng::new(seed() + 13);
    let mut n = 0;
    for (cfg, es) in files(&mut rng) {
        let bytes = write_file(&cfg, &es);
        let keys: Vec<Vec<u8>> = es.iter().map(|e| e.0.clone()).collect();
        let ps = probes(&keys);
        let mut ranges: Vec<(Bound<Vec<u8>>, Bound<Vec<u8>>)> = vec![(Bound::Unbounded, Bound::Unbounded)];
        for _ in 0..if tier_thorough() { 400 } else { 90 } { ranges.push(bounds_for(&ps, &mut rng)); }
        if let Some(k) = keys.get(keys.len() / 3) { for a in [Bound::Included(k.clone()), Bound::Excluded(k.clone())] { for b in [Bound::Included(k.clone()), Bound::Excluded(k.clone())] { ranges.push((a.clone(), b.clone())); } } }
        for r in ranges {
            let want: Entries = es.iter().filter(|e| in_range(&e.0, &r)).cloned().collect();
            let mut it = Reader::new(Cursor::new(&bytes[..])).unwrap().into_range_iter(r.clone()).unwrap();
            let mut got = vec![]; while let Some((k, v)) = it.next().unwrap_or_else(|e| cex(format!("C04 range iterator error {} range={:?}", e, r))) { got.push((k.to_vec(), v.to_vec())); if got.len() > es.len() + 2 { break; } }
            if got != want { cex(format!("C04 forward range {:?} yields {} entries expected {} (first got {:?}, first want {:?}) cfg={:?}", dbg_range(&r), got.len(), want.len(), got.first().map(|e| hex(&e.0)), want.first().map(|e| hex(&e.0)), cfg)); }
            let mut it = Reader::new(Cursor::new(&bytes[..])).unwrap().into_rev_range_iter(r.clone()).unwrap();
            let mut got = vec![]; while let Some((k, v)) = it.next().unwrap_or_else(|e| cex(format!("C04 rev range iterator error {} range={:?}", e, r))) { got.push((k.to_vec(), v.to_vec())); if got.len() > es.len() + 2 { break; } }
            let mut wr = want.clone(); wr.reverse();
            if got != wr { cex(format!("C04 reverse range {:?} yields {} entries expected {} cfg={:?}", dbg_range(&r), got.len(), wr.len(), cfg)); }
            n += 1;
        }
    }
    stat("ranges", n);
}
fn dbg_range(r: &(Bound<Vec<u8>>, Bound<Vec<u8>>)) -> String {
    let f = |b: &Bound<Vec<u8>>| match b { Bound::Unbounded => "Unbounded".to_string(), Bound::Included(a) => format!("Included({})", hex(a)), Bound::Excluded(a) => format!("Excluded({})", hex(a)) };
    format!("({}, {})", f(&r.0), f(&r.1))
}

#[test]
fn c05_prefixes() {
    let mut rng = Rng::new(seed() + 14);
    let mut n = 0;
    for (cfg, es) in files(&mut rng) {
        let bytes = write_file(&cfg, &es);
        let keys: Vec<Vec<u8>> = es.iter().map(|e| e.0.clone()).collect();
        let mut prefixes = std::collections::BTreeSet::new();
        prefixes.insert(vec![]); prefixes.insert(vec![0xFF]); prefixes.insert(vec![0xFF, 0xFF]); prefixes.insert(vec![0, 0xFF]); prefixes.insert(vec![5, 0xFF, 7]); prefixes.insert(vec![0xFF, 0]);
        for k in keys.iter().step_by(1 + keys.len() / if tier_thorough() { 200 } else { 40 }) {
            for l in [0, 1, 2, 3, 4, k.len() / 2, k.len()] { if l <= k.len() { prefixes.insert(k[..l].to_vec()); } }
            let mut e = k.clone(); e.push(0xFF); prefixes.insert(e); let mut e = k.clone(); e.push(0); prefixes.insert(e);
            if k.len() >= 2 { let mut e = k[..2].to_vec(); e[1] = 0xFF; prefixes.insert(e.clone()); e.push(1); prefixes.insert(e); }
        }
        for p in prefixes {
            let want: Entries = es.iter().filter(|e| e.0.starts_with(&p)).cloned().collect();
            let mut it = Reader::new(Cursor::new(&bytes[..])).unwrap().into_prefix_iter(p.clone()).unwrap();
            let mut got = vec![]; while let Some((k, v)) = it.next().unwrap_or_else(|e| cex(format!("C05 prefix iterator error {} prefix={}", e, hex(&p)))) { got.push((k.to_vec(), v.to_vec())); if got.len() > es.len() + 2 { break; } }
            if got != want { cex(format!("C05 forward prefix {} yields {} entries expected {} cfg={:?}", hex(&p), got.len(), want.len(), cfg)); }
            let mut it = Reader::new(Cursor::new(&bytes[..])).unwrap().into_rev_prefix_iter(p.clone()).unwrap();
            let mut got = vec![]; while let Some((k, v)) = it.next().unwrap_or_else(|e| cex(format!("C05 rev prefix iterator error {} prefix={}", e, hex(&p)))) { got.push((k.to_vec(), v.to_vec())); if got.len() > es.len() + 2 { break; } }
            let mut wr = want.clone(); wr.reverse();
            if got != wr { cex(format!("C05 reverse prefix {} yields {} entries expected {} cfg={:?}", hex(&p), got.len(), wr.len(), cfg)); }
            n += 1;
        }
    }
    stat("prefixes", n);
}

#[test]
fn c16_io_bound() {
    let mut rng = Rng::new(seed() + 15);
    let (mut ops, mut worst) = (0usize, 0usize);
    for (cfg, es) in files(&mut rng) {
        let bytes = write_file(&cfg, &es);
        let keys: Vec<Vec<u8>> = es.iter().map(|e| e.0.clone()).collect();
        let ps = probes(&keys);
        let bound = 2 * (cfg.levels as usize + 2);
        let src = SchedSource::new(bytes.clone(), 1, usize::MAX, false);
        let r = Reader::new(src).unwrap();
        // opening reads only the trailer: at most the trailer bytes (22, plus the 4 magic bytes if they are read twice), every one of
        // them from the trailer region. Positioning the source transfers no data and is free (from the end, absolute, back to 0, ...)
        { let s = r.get_ref(); let outside: Vec<u64> = s.reads_at.iter().copied().filter(|&o| (o as usize) + 26 < bytes.len()).collect();
          if !outside.is_empty() || s.bytes_read > 22 + 4 { cex(format!("C16 opening read {} bytes, some outside the trailer at offsets {:?} (file of {} bytes, trailer is 22 bytes) cfg={:?}", s.bytes_read, outside, bytes.len(), cfg)); } }
        let mut c = r.into_cursor().unwrap();
        let nops = if tier_thorough() { 4000 } else { 900 };
        for i in 0..nops {
            let before = c.get_ref().abs_seeks.len();
            let what;
            match if i < es.len().min(nops / 2) { 2 } else { rng.below(9) } {
                0 => { what = "first"; c.move_on_first().unwrap(); } 1 => { what = "last"; c.move_on_last().unwrap(); }
                2 | 3 => { what = "next"; c.move_on_next().unwrap(); } 4 | 5 => { what = "prev"; c.move_on_prev().unwrap(); }
                6 => { what = "GE"; c.move_on_key_greater_than_or_equal_to(&ps[rng.below(ps.len() as u64) as usize]).unwrap(); }
                7 => { what = "LE"; c.move_on_key_lower_than_or_equal_to(&ps[rng.below(ps.len() as u64) as usize]).unwrap(); }
                _ => { what = "EQ"; c.move_on_key_equal_to(&ps[rng.below(ps.len() as u64) as usize]).unwrap(); }
            }
            let loads = c.get_ref().abs_seeks.len() - before;
            worst = worst.max(loads);
            if loads > bound { cex(format!("C16 one {} loaded {} blocks, bound 2*(levels+2)={} cfg={:?} n={}", what, loads, bound, cfg, es.len())); }
            ops += 1;
        }
    }
    stat("operations", ops); stat("max_loads_in_one_op", worst);
}
