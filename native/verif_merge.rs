//! Bounded stand-ins / witness searches for C06 (merger), C07 and C08 (sorter).
mod common;
use common::*;
use grenad::{ChunkCreator, CursorVec, MergeFunction, Merger, Reader, Sorter, SortAlgorithm};
use std::borrow::Cow;
use std::cell::RefCell;
use std::collections::BTreeMap;
use std::io::Cursor;
use std::rc::Rc;
use std::sync::atomic::{AtomicIsize, AtomicUsize, Ordering};
use std::sync::Arc;

/// order-recording, non-commutative; returns a lone value unchanged; records every call
#[derive(Clone)]
struct Bar { calls: Rc<RefCell<Vec<(Vec<u8>, usize)>>> }
impl MergeFunction for Bar {
    type Error = std::convert::Infallible;
    fn merge<'a>(&self, key: &[u8], values: &[Cow<'a, [u8]>]) -> Result<Cow<'a, [u8]>, Self::Error> {
        self.calls.borrow_mut().push((key.to_vec(), values.len()));
        if values.len() == 1 { return Ok(values[0].clone()); }
        let mut out = vec![]; for (i, v) in values.iter().enumerate() { if i > 0 { out.push(b'|'); } out.extend_from_slice(v); }
        Ok(Cow::Owned(out))
    }
}

#[test]
fn c06_merge() {
    let mut rng = Rng::new(seed() + 21);
    let mut cases = 0;
    let base = Cfg { ct: grenad::CompressionType::None, level: 0, block_size: 1024, interval: 2, levels: 2 };
    // exhaustive overlap patterns: 3 sources x 4 keys (each key in any subset of sources), + random larger ones
    let universe: Vec<Vec<u8>> = vec![b"a".to_vec(), b"b".to_vec(), b"b\0".to_vec(), b"c".to_vec()];
    let mut patterns: Vec<Vec<Vec<Vec<u8>>>> = vec![];
    for mask in 0..(1u32 << 12) { if !tier_thorough() && mask % 5 != 0 && mask != (1 << 12) - 1 { continue; }
        patterns.push((0..3).map(|s| (0..4).filter(|k| mask >> (s * 4 + k) & 1 == 1).map(|k| universe[k].clone()).collect()).collect()); }
    patterns.push(vec![]); patterns.push(vec![vec![], vec![]]);
    for r in 0..if tier_thorough() { 60 } else { 15 } {
        let k = 1 + rng.below(6) as usize; let pool = keyset(r % 5, 150, &mut rng);
        patterns.push((0..k).map(|_| pool.iter().filter(|_| rng.below(3) == 0).cloned().collect()).collect());
    }
    // every third pattern gives all sources the SAME value for a key (a merger that drops repeated values is seen), the others a
    // value naming its source (a merger that misorders sources is seen)
    fn val_of(pi: usize, si: usize, k: &[u8]) -> Vec<u8> { if pi % 3 == 1 { format!("v:{}", hex(k)).into_bytes() } else { format!("s{}:{}", si, hex(k)).into_bytes() } }
    for (pi, srcs) in patterns.iter().enumerate() {
        let files: Vec<Vec<u8>> = srcs.iter().enumerate().map(|(si, ks)| { let cfg = Cfg { levels: (si % 3) as u8, interval: 1 + si % 3, ..base.clone() };
            write_file(&cfg, &ks.iter().map(|k| (k.clone(), val_of(pi, si, k))).collect()) }).collect();
        let mut want: BTreeMap<Vec<u8>, Vec<Vec<u8>>> = BTreeMap::new();
        for (si, ks) in srcs.iter().enumerate() { for k in ks { want.entry(k.clone()).or_default().push(val_of(pi, si, k)); } }
        let want_out: Entries = want.iter().map(|(k, vs)| (k.clone(), vs.join(&b'|'))).collect();
        for route in 0..2 {
            let calls = Rc::new(RefCell::new(vec![]));
            let mut b = Merger::builder(Bar { calls: calls.clone() });
            // the three ways of adding sources: push / add alternately; push the first then `extend` with the rest; `extend` on the empty builder
            let cursors: Vec<_> = files.iter().map(|f| Reader::new(Cursor::new(&f[..])).unwrap().into_cursor().unwrap()).collect();
            match (pi / 2) % 3 {
                0 => { for (i, c) in cursors.into_iter().enumerate() { if i % 2 == 0 { b.push(c); } else { b = b.add(c); } } }
                1 => { let mut it = cursors.into_iter(); if let Some(c) = it.next() { b.push(c); } b.extend(it); }
                _ => { b.extend(cursors); }
            }
            let got: Entries = if route == 0 {
                let mut it = b.build().into_stream_merger_iter().unwrap(); let mut out = vec![];
                while let Some((k, v)) = it.next().unwrap() { out.push((k.to_vec(), v.to_vec())); }
                if it.next().unwrap().is_some() { cex("C06 iterator yields again after None".into()); }
                out
            } else {
                let mut w = base.builder().memory(); b.build().write_into_stream_writer(&mut w).unwrap(); let bytes = w.into_inner().unwrap();
                decode_file(&bytes, Some(2)).unwrap_or_else(|e| cex(format!("C06 streamed file is malformed: {}", e))).entries
            };
            if got != want_out { let d = got.iter().zip(want_out.iter()).position(|(a, b)| a != b);
                cex(format!("C06 merge output differs (route {}): got {} keys want {}; first difference at {:?}: got {:?} want {:?}; sources={:?}", route, got.len(), want_out.len(), d,
                    d.map(|i| (hex(&got[i].0), String::from_utf8_lossy(&got[i].1).to_string())), d.map(|i| (hex(&want_out[i].0), String::from_utf8_lossy(&want_out[i].1).to_string())),
                    if srcs.len() <= 3 { format!("{:?}", srcs.iter().map(|s| s.iter().map(|k| hex(k)).collect::<Vec<_>>()).collect::<Vec<_>>()) } else { format!("pattern #{}", pi) })); }
            let calls = calls.borrow();
            // one call per key held by several sources, with all its values; a key held by one source may be passed to the merge
            // function (one call, one value) or handed through unchanged (no call): the statement allows both
            let want_multi: Vec<(Vec<u8>, usize)> = want.iter().filter(|(_, vs)| vs.len() >= 2).map(|(k, vs)| (k.clone(), vs.len())).collect();
            let got_multi: Vec<(Vec<u8>, usize)> = calls.iter().filter(|c| c.1 >= 2).cloned().collect();
            if got_multi != want_multi { cex(format!("C06 merge function calls differ: got {} calls with several values, want {} (exactly one call per key held by several sources, with all its values) pattern #{}", got_multi.len(), want_multi.len(), pi)); }
            let lone: Vec<&Vec<u8>> = calls.iter().filter(|c| c.1 < 2).map(|c| &c.0).collect();
            for (i, k) in lone.iter().enumerate() { if want.get(*k).map(|vs| vs.len()) != Some(1) || lone[..i].contains(k) { cex(format!("C06 merge function called with a single value for key {} which is not a key held by exactly one source, or called twice for it; pattern #{}", hex(k), pi)); } }
            cases += 1;
        }
    }
    stat("merges", cases);
}

/// associative, returns a lone value unchanged: plain concatenation of fixed-width tokens
#[derive(Clone, Copy)]
struct Concat;
impl MergeFunction for Concat {
    type Error = std::convert::Infallible;
    fn merge<'a>(&self, _key: &[u8], values: &[Cow<'a, [u8]>]) -> Result<Cow<'a, [u8]>, Self::Error> {
        if values.len() == 1 { return Ok(values[0].clone()); }
        Ok(Cow::Owned(values.iter().flat_map(|v| v.iter().copied()).collect()))
    }
}
const TOK: usize = 256; // token width: 4-byte insertion index + padding, so that volume reaches the 10 MiB minimum budget

/// token of insert #i: unique per i (odd multiplier = bijection on u32) and in an order unrelated to i, so that a sorter that orders
/// equal keys by anything but insertion position (e.g. by value bytes) is seen
fn token(i: u32) -> Vec<u8> { let mut t = i.wrapping_mul(0x9E37_79B1).to_be_bytes().to_vec(); t.resize(TOK, (i % 251) as u8); t }

struct SorterCfg { threshold: usize, realloc: bool, max_chunks: usize, algo: SortAlgorithm, par: bool, ct: grenad::CompressionType, levels: u8, block: usize, interval: usize }

fn consume<CC: ChunkCreator>(mut s: Sorter<Concat, CC>, inserts: &[(Vec<u8>, Vec<u8>)], route: usize) -> Result<Entries, String> where CC::Chunk: 'static {
    for (k, v) in inserts { s.insert(k, v).map_err(|e| format!("insert: {}", e))?; }
    let mut out = vec![];
    match route {
        0 => { let mut it = s.into_stream_merger_iter().map_err(|e| e.to_string())?; while let Some((k, v)) = it.next().map_err(|e| e.to_string())? { out.push((k.to_vec(), v.to_vec())); } }
        1 => { let mut w = grenad::Writer::memory(); s.write_into_stream_writer(&mut w).map_err(|e| e.to_string())?; let bytes = w.into_inner().unwrap();
               out = decode_file(&bytes, None).map_err(|e| format!("written file malformed: {}", e))?.entries; }
        _ => { let cursors = s.into_reader_cursors().map_err(|e| e.to_string())?; let mut mb = Merger::builder(Concat); mb.extend(cursors);
               let mut it = mb.build().into_stream_merger_iter().map_err(|e| e.to_string())?; while let Some((k, v)) = it.next().map_err(|e| e.to_string())? { out.push((k.to_vec(), v.to_vec())); } }
    }
    Ok(out)
}
/// `default_storage`: keep the builder's default chunk creator (temporary files) instead of in-memory chunks
fn run_sorter_with(sc: &SorterCfg, inserts: &[(Vec<u8>, Vec<u8>)], route: usize, default_storage: bool) -> Result<Entries, String> {
    let mut b = Sorter::builder(Concat);
    b.dump_threshold(sc.threshold).allow_realloc(sc.realloc).max_nb_chunks(sc.max_chunks).sort_algorithm(sc.algo).sort_in_parallel(sc.par)
        .chunk_compression_type(sc.ct).index_levels(sc.levels).block_size(sc.block).index_key_interval(std::num::NonZeroUsize::new(sc.interval).unwrap());
    if default_storage { consume(b.build(), inserts, route) } else { consume(b.chunk_creator(CursorVec).build(), inserts, route) }
}
fn run_sorter(sc: &SorterCfg, inserts: &[(Vec<u8>, Vec<u8>)], route: usize) -> Result<Entries, String> { run_sorter_with(sc, inserts, route, false) }

#[test]
fn c07_sorter_equals_sort_and_merge() {
    let mut rng = Rng::new(seed() + 22);
    let mut runs = 0; let mut spilled_runs = 0;
    let volumes: Vec<usize> = if profile_dev() { vec![0, 300, 45_000] } else if tier_thorough() { vec![0, 1, 300, 45_000, 90_000, 140_000] } else { vec![0, 300, 45_000, 95_000] }; // inserts of ~270 B each: 45k ~ 12 MiB
    for (vi, &n) in volumes.iter().enumerate() {
        let nkeys = [1usize, 7, 500, 4000][vi % 4];
        let keys = keyset(vi + 3, nkeys, &mut rng);
        let mut inserts: Vec<(Vec<u8>, Vec<u8>)> = (0..n).map(|i| (keys[rng.below(keys.len() as u64) as usize].clone(), token(i as u32))).collect();
        if n > 0 { inserts.insert(n / 2, (vec![], vec![])); inserts.push((vec![], vec![])); } // empty pairs, also as the very last pending entry
        if n > 50_000 { inserts.insert(n / 3, (b"huge".to_vec(), vec![9u8; 11 * 1024 * 1024])); } // larger than the whole buffer
        let mut want_stable: BTreeMap<Vec<u8>, Vec<u8>> = BTreeMap::new();
        for (k, v) in &inserts { want_stable.entry(k.clone()).or_default().extend_from_slice(v); }
        let cfgs = [
            SorterCfg { threshold: 0, realloc: false, max_chunks: 2, algo: SortAlgorithm::Stable, par: false, ct: grenad::CompressionType::None, levels: 0, block: 1024, interval: 2 },
            SorterCfg { threshold: 0, realloc: true, max_chunks: 1, algo: SortAlgorithm::Stable, par: true, ct: grenad::CompressionType::Snappy, levels: 2, block: 1024, interval: 1 },
            SorterCfg { threshold: 11_000_003, realloc: false, max_chunks: 3, algo: SortAlgorithm::Unstable, par: false, ct: grenad::CompressionType::Lz4, levels: 1, block: 4096, interval: 8 },
            SorterCfg { threshold: 0, realloc: true, max_chunks: 25, algo: SortAlgorithm::Unstable, par: true, ct: grenad::CompressionType::Zstd, levels: 3, block: 1024, interval: 3 },
        ];
        for (ci, sc) in cfgs.iter().enumerate() {
            if !tier_thorough() && n > 50_000 && ci % 2 == 1 { continue; }
            if profile_dev() && n > 1000 && ci >= 2 { continue; } // dev profile: the spilling volume only for cfg#0 (max 2 chunks) and cfg#1 (max 1 chunk: every spill merges)
            for route in 0..3 {
                if !tier_thorough() && n > 1000 && route != (ci + vi) % 3 && !(ci == 0) { continue; }
                let got = match std::panic::catch_unwind(std::panic::AssertUnwindSafe(|| run_sorter_with(sc, &inserts, route, (ci + vi + route) % 4 == 0))) {
                    Err(p) => { let m = p.downcast_ref::<String>().cloned().or_else(|| p.downcast_ref::<&str>().map(|s| s.to_string())).unwrap_or_default();
                        cex(format!("C07 sorter panicked: `{}` -- input: {} inserts, cfg#{} (dump_threshold {} realloc={} max_nb_chunks={} algo={:?} parallel={} codec={:?}), consumed by route {}, {} build", m, inserts.len(), ci, sc.threshold, sc.realloc, sc.max_chunks, sc.algo, sc.par, sc.ct, route, if profile_dev() { "dev-profile" } else { "release" })) }
                    Ok(r) => r.unwrap_or_else(|e| cex(format!("C07 sorter failed: {} (n={} cfg#{} route {})", e, n, ci, route))) };
                let gk: Vec<&Vec<u8>> = got.iter().map(|e| &e.0).collect(); let wk: Vec<&Vec<u8>> = want_stable.keys().collect();
                if gk != wk { cex(format!("C07 output keys differ: got {} keys want {} distinct inserted keys (n={} inserts, cfg#{} realloc={} max_chunks={} route {}); first got {:?} first want {:?}", gk.len(), wk.len(), inserts.len(), ci, sc.realloc, sc.max_chunks, route, gk.first().map(|k| hex(k)), wk.first().map(|k| hex(k)))); }
                for (k, v) in &got {
                    let w = &want_stable[k];
                    let ok = match sc.algo { SortAlgorithm::Stable => v == w, SortAlgorithm::Unstable => { let mut a: Vec<&[u8]> = v.chunks(TOK).collect(); let mut b: Vec<&[u8]> = w.chunks(TOK).collect(); a.sort(); b.sort(); v.len() == w.len() && (k == b"huge" || a == b) } };
                    if !ok { let pos = v.iter().zip(w.iter()).position(|(a, b)| a != b).unwrap_or(v.len().min(w.len())) / TOK;
                        cex(format!("C07 value of key {} differs from the merge of its inserted values in insertion order: {} bytes vs {} bytes, first differing token #{} (n={} cfg#{} algo={:?} realloc={} max_chunks={} route {})", hex(k), v.len(), w.len(), pos, inserts.len(), ci, sc.algo, sc.realloc, sc.max_chunks, route)); }
                }
                runs += 1; if n > 40_000 { spilled_runs += 1; }
            }
        }
    }
    // pending entries that are all empty pairs at consumption time: alone, and right after a spill that the empty pair
    // itself triggered (fixed 10 MiB buffer filled to the last byte by 10240 entries of 16+8+1000 bytes)
    for route in 0..3 {
        let sc = SorterCfg { threshold: 0, realloc: false, max_chunks: 3, algo: SortAlgorithm::Stable, par: false, ct: grenad::CompressionType::None, levels: 0, block: 1024, interval: 2 };
        for fill in [false, true] {
            let mut inserts: Vec<(Vec<u8>, Vec<u8>)> = vec![];
            if fill { for i in 0..10240u64 { inserts.push((i.to_be_bytes().to_vec(), vec![(i % 250) as u8 + 1; 1000])); } }
            inserts.push((vec![], vec![]));
            if !fill { inserts.push((vec![], vec![])); }
            let mut want: BTreeMap<Vec<u8>, Vec<u8>> = BTreeMap::new();
            for (k, v) in &inserts { want.entry(k.clone()).or_default().extend_from_slice(v); }
            let got = run_sorter(&sc, &inserts, route).unwrap_or_else(|e| cex(format!("C07 sorter failed on the empty-pair scenario: {}", e)));
            let want_v: Entries = want.into_iter().collect();
            if got != want_v { cex(format!("C07 output has {} keys, expected {} (first expected key {:?}): pending entries that are all empty pairs {} (route {})", got.len(), want_v.len(), want_v.first().map(|e| hex(&e.0)), if fill { "right after a spill of a completely full 10 MiB buffer" } else { "in a sorter that never spilled" }, route)); }
            runs += 1;
        }
    }
    // a merge function that sees everything C07 fixes: it joins with '|' (the number and order of the values of a key, empty ones
    // included, is visible in the output), returns a lone value unchanged, is associative, and refuses values of another key
    // (every non-empty value starts with the hex of its key and ':'). Stable algorithm, groups spanning a spill.
    #[derive(Clone, Copy)] struct KeyedJoin;
    impl MergeFunction for KeyedJoin { type Error = std::convert::Infallible;
        fn merge<'a>(&self, key: &[u8], values: &[Cow<'a, [u8]>]) -> Result<Cow<'a, [u8]>, Self::Error> {
            if values.len() == 1 { return Ok(values[0].clone()); }
            let tag = format!("{}:", hex(key)).into_bytes();
            for v in values { for part in v.split(|b| *b == b'|') { if !part.is_empty() && !part.starts_with(&tag) {
                return Ok(Cow::Owned(format!("WRONG-KEY: merge called for key {} with a value of another key ({}...)", hex(key), String::from_utf8_lossy(&part[..part.len().min(24)])).into_bytes())); } } }
            let mut out = vec![]; for (i, v) in values.iter().enumerate() { if i > 0 { out.push(b'|'); } out.extend_from_slice(v); }
            Ok(Cow::Owned(out)) } }
    // configuration corners: the largest possible budget ("never spill") and chunk maximum ("never merge"), the smallest ones
    for (threshold, realloc, max_chunks) in [(usize::MAX, true, usize::MAX), (usize::MAX, true, 1), (0usize, false, usize::MAX), (1, true, 0)] {
        let inserts: Vec<(Vec<u8>, Vec<u8>)> = (0..400u32).map(|i| (((i * 7) % 50).to_be_bytes().to_vec(), token(i))).collect();
        let mut want: BTreeMap<Vec<u8>, Vec<u8>> = BTreeMap::new();
        for (k, v) in &inserts { want.entry(k.clone()).or_default().extend_from_slice(v); }
        let want: Entries = want.into_iter().collect();
        for route in 0..3 {
            let sc = SorterCfg { threshold, realloc, max_chunks, algo: SortAlgorithm::Stable, par: false, ct: grenad::CompressionType::None, levels: 1, block: 1024, interval: 2 };
            let got = match std::panic::catch_unwind(std::panic::AssertUnwindSafe(|| run_sorter(&sc, &inserts, route))) {
                Err(p) => { let m = p.downcast_ref::<String>().cloned().or_else(|| p.downcast_ref::<&str>().map(|s| s.to_string())).unwrap_or_default();
                    cex(format!("C07 sorter panicked: `{}` -- input: 400 small inserts, dump_threshold({}) allow_realloc({}) max_nb_chunks({}), route {}", m, threshold, realloc, max_chunks, route)) }
                Ok(r) => r.unwrap_or_else(|e| cex(format!("C07 sorter failed: {} (dump_threshold({}) allow_realloc({}) max_nb_chunks({}) route {})", e, threshold, realloc, max_chunks, route))) };
            if got != want { cex(format!("C07 output differs for dump_threshold({}) allow_realloc({}) max_nb_chunks({}) route {}: {} keys vs {}", threshold, realloc, max_chunks, route, got.len(), want.len())); }
            runs += 1;
        }
    }
    let kkeys: Vec<Vec<u8>> = vec![vec![], b"a".to_vec(), b"a\0".to_vec(), b"ab".to_vec(), b"b".to_vec(), vec![0xff], vec![0xff, 0xff], b"filler".to_vec()];
    for (max_chunks, par) in [(1usize, false), (2, true), (25, false)] {
        let mut inserts: Vec<(Vec<u8>, Vec<u8>)> = vec![];
        let n = if profile_dev() { 900 } else { 3000 };
        for i in 0..n { let k = kkeys[rng.below(7) as usize].clone(); let v = if rng.below(10) < 3 { vec![] } else { format!("{}:{}", hex(&k), i).into_bytes() };
            inserts.push((k, v));
            if i == n / 3 || i == 2 * n / 3 { let mut f = b"66696c6c6572:".to_vec(); f.resize(6 * 1024 * 1024, b'z'); inserts.push((b"filler".to_vec(), f)); } } // 2 x 6 MiB: a spill in the middle
        let mut want: BTreeMap<Vec<u8>, Vec<Vec<u8>>> = BTreeMap::new();
        for (k, v) in &inserts { want.entry(k.clone()).or_default().push(v.clone()); }
        let want_out: Entries = want.iter().map(|(k, vs)| (k.clone(), if vs.len() == 1 { vs[0].clone() } else { vs.join(&b'|') })).collect();
        for route in 0..3 {
            let mut b = Sorter::builder(KeyedJoin);
            b.dump_threshold(0).allow_realloc(false).max_nb_chunks(max_chunks).sort_algorithm(SortAlgorithm::Stable).sort_in_parallel(par);
            let mut s = b.chunk_creator(CursorVec).build();
            for (k, v) in &inserts { s.insert(k, v).unwrap_or_else(|e| cex(format!("C07 insert failed: {}", e))); }
            let mut got: Entries = vec![];
            match route {
                0 => { let mut it = s.into_stream_merger_iter().unwrap_or_else(|e| cex(format!("C07 sorter failed: {}", e))); while let Some((k, v)) = it.next().unwrap_or_else(|e| cex(format!("C07 sorter failed: {}", e))) { got.push((k.to_vec(), v.to_vec())); } }
                1 => { let mut w = grenad::Writer::memory(); s.write_into_stream_writer(&mut w).unwrap_or_else(|e| cex(format!("C07 sorter failed: {}", e))); let bytes = w.into_inner().unwrap();
                       got = decode_file(&bytes, None).unwrap_or_else(|e| cex(format!("C07 written file malformed: {}", e))).entries; }
                _ => { let cursors = s.into_reader_cursors().unwrap_or_else(|e| cex(format!("C07 sorter failed: {}", e))); let mut mb = Merger::builder(KeyedJoin); mb.extend(cursors);
                       let mut it = mb.build().into_stream_merger_iter().unwrap(); while let Some((k, v)) = it.next().unwrap() { got.push((k.to_vec(), v.to_vec())); } }
            }
            if got != want_out {
                let d = got.iter().zip(want_out.iter()).position(|(a, b)| a != b);
                let show = |e: Option<&(Vec<u8>, Vec<u8>)>| e.map(|e| format!("key {} -> {:?}", hex(&e.0), String::from_utf8_lossy(&e.1[..e.1.len().min(90)]).to_string()));
                cex(format!("C07 with a merge function that joins with '|' and checks keys: output differs from the merge of each key's values in insertion order (stable algorithm, {} inserts of which ~30% empty values, 2 x 6 MiB filler forcing a spill, max_nb_chunks={} parallel={} route {}): {} keys vs {}; first difference: got {:?} want {:?}",
                    inserts.len(), max_chunks, par, route, got.len(), want_out.len(), show(d.and_then(|i| got.get(i))), show(d.and_then(|i| want_out.get(i)))));
            }
            runs += 1;
        }
    }
    stat("runs", runs); stat("runs_with_spills", spilled_runs);
    assert!(spilled_runs > 0);
}

/// C17 stand-in (bounded): the in-memory buffer of a reallocating sorter starts small (128 KiB); an entry needing k = 1..7
/// doublings at once must be stored intact, first thing or after a few small entries, and everything comes back out.
#[test]
fn c17_growth_by_repeated_doubling() {
    let sizes: Vec<usize> = if tier_thorough() { vec![100_000, 131_072, 200_000, 262_145, 300_000, 524_289, 1_048_577, 3_000_001, 9_000_000, 17_000_000] } else { vec![200_000, 262_145, 300_000, 1_048_577, 5_000_003] };
    let mut runs = 0;
    for &sz in &sizes {
        for pre in [0usize, 3, 400] {
            for split in 0..3 {
                // the big entry's bytes live in the key, in the value, or in both
                let (klen, vlen) = match split { 0 => (3usize, sz), 1 => (sz.min(60_000), sz - sz.min(60_000) + 1), _ => (sz / 2, sz - sz / 2) };
                let mut inserts: Vec<(Vec<u8>, Vec<u8>)> = (0..pre).map(|i| ((i as u32).to_be_bytes().to_vec(), token(i as u32))).collect();
                let mut big_k = vec![0xEEu8; klen]; big_k[0] = 0xFF;
                let big_v: Vec<u8> = (0..vlen).map(|i| (i % 253) as u8).collect();
                inserts.push((big_k, big_v));
                inserts.push((b"\xFF\xFFafter".to_vec(), token(7)));
                let desc = format!("a fresh reallocating sorter (128 KiB initial buffer), {} small inserts, then one entry with a {}-byte key and a {}-byte value, then one small insert", pre, klen, vlen);
                let ins2 = inserts.clone();
                let r = std::panic::catch_unwind(move || {
                    let mut s = Sorter::builder(Concat).chunk_creator(CursorVec).build();
                    for (k, v) in &ins2 { s.insert(k, v).map_err(|e| e.to_string())?; }
                    let mut out: Entries = vec![];
                    let mut it = s.into_stream_merger_iter().map_err(|e| e.to_string())?;
                    while let Some((k, v)) = it.next().map_err(|e| e.to_string())? { out.push((k.to_vec(), v.to_vec())); }
                    Ok::<Entries, String>(out)
                });
                let got = match r {
                    Err(p) => { let m = p.downcast_ref::<String>().cloned().or_else(|| p.downcast_ref::<&str>().map(|s| s.to_string())).unwrap_or_default();
                        cex(format!("C17 panic while storing an entry that needs several buffer doublings: `{}` -- input: {}", m, desc)) }
                    Ok(Err(e)) => cex(format!("C17 sorter failed: {} -- input: {}", e, desc)),
                    Ok(Ok(g)) => g,
                };
                let mut want = inserts.clone(); want.sort();
                if got != want { cex(format!("C17 entries read back differ from the inserted ones ({} vs {} entries; first difference at #{:?}) -- input: {}", got.len(), want.len(), got.iter().zip(want.iter()).position(|(a, b)| a != b), desc)); }
                runs += 1;
            }
        }
    }
    stat("runs", runs);
}

/// chunk storage that counts live chunks and creations
struct CountingChunks { live: Arc<AtomicIsize>, peak: Arc<AtomicIsize>, created: Arc<AtomicUsize>, fail_create_at: Option<usize> }
struct CountedChunk { inner: Cursor<Vec<u8>>, live: Arc<AtomicIsize> }
impl Drop for CountedChunk { fn drop(&mut self) { self.live.fetch_sub(1, Ordering::SeqCst); } }
impl std::io::Read for CountedChunk { fn read(&mut self, b: &mut [u8]) -> std::io::Result<usize> { self.inner.read(b) } }
impl std::io::Write for CountedChunk { fn write(&mut self, b: &[u8]) -> std::io::Result<usize> { self.inner.write(b) } fn flush(&mut self) -> std::io::Result<()> { self.inner.flush() } }
impl std::io::Seek for CountedChunk { fn seek(&mut self, p: std::io::SeekFrom) -> std::io::Result<u64> { self.inner.seek(p) } }
impl ChunkCreator for CountingChunks {
    type Chunk = CountedChunk; type Error = std::io::Error;
    fn create(&self) -> Result<CountedChunk, std::io::Error> {
        let n = self.created.fetch_add(1, Ordering::SeqCst) + 1;
        if Some(n) == self.fail_create_at { return Err(std::io::Error::new(std::io::ErrorKind::Other, "injected create failure")); }
        let l = self.live.fetch_add(1, Ordering::SeqCst) + 1; self.peak.fetch_max(l, Ordering::SeqCst);
        Ok(CountedChunk { inner: Cursor::new(Vec::new()), live: self.live.clone() })
    }
}

#[test]
fn c08_spill_bounds() {
    let mut rng = Rng::new(seed() + 23);
    let mut runs = 0;
    let mib = 1024 * 1024;
    let floor = {
        let created = Arc::new(AtomicUsize::new(0));
        let cc = CountingChunks { live: Arc::new(AtomicIsize::new(0)), peak: Arc::new(AtomicIsize::new(0)), created: created.clone(), fail_create_at: None };
        let mut b = Sorter::builder(Concat); b.dump_threshold(0).allow_realloc(false).max_nb_chunks(1000);
        let mut s = b.chunk_creator(cc).build();
        let mut in_use = 0usize; let mut i = 0u32;
        loop { let key = i.to_be_bytes(); let val = vec![1u8; 1000]; s.insert(&key, &val).unwrap(); in_use += 16 + key.len() + val.len(); i += 1;
            if created.load(Ordering::SeqCst) > 0 { break; } if in_use > 4096 * mib { cex("C08 a fixed-size sorter with a zero budget accepted 4 GiB without spilling".into()); } }
        in_use
    };
    stat("measured_floor", floor);
    // budgets: zero (raised to the floor), just above the floor, and well above it but far from any round number
    let above = floor + floor / 4 + 5;
    for &(threshold, realloc, max_chunks, fail_at) in &[(0usize, true, 2usize, None), (0, false, 1, None), (10 * mib + 8, false, 3, None), (12 * mib + 5, true, 1, None), (0, false, 2, Some(3usize)), (0, true, 25, None), (10 * mib + 8, false, 2, Some(4)), (above, false, 2, None), (above + 3, true, 3, None)] {
        // the *effective* budget: a request below the sorter's floor is raised to the floor. The statement does not fix the floor,
        // so it is measured (bytes a fixed-size sorter asked for a zero budget accepts before its first spill, rounded up by at
        // most one 1 KiB entry) instead of being copied from the source
        let budget = threshold.max(floor);
        let (live, peak, created) = (Arc::new(AtomicIsize::new(0)), Arc::new(AtomicIsize::new(0)), Arc::new(AtomicUsize::new(0)));
        let cc = CountingChunks { live: live.clone(), peak: peak.clone(), created: created.clone(), fail_create_at: fail_at };
        let mut b = Sorter::builder(Concat); b.dump_threshold(threshold).allow_realloc(realloc).max_nb_chunks(max_chunks);
        let mut s = b.chunk_creator(cc).build();
        let total = if tier_thorough() { 90 * mib } else { 55 * mib };
        let (mut inserted, mut since_spill, mut last_created, mut worst) = (0usize, 0usize, 0usize, 0usize);
        let mut i = 0u32;
        while inserted < total {
            let vl = [0usize, 100, 1000, 70_000, 2 * mib][rng.below(5) as usize].min(budget / 4 - 64);
            let key = (rng.below(5000) as u32).to_be_bytes(); let val = vec![(i % 251) as u8; vl];
            let r = s.insert(&key, &val);
            let c = created.load(Ordering::SeqCst);
            if c != last_created { since_spill = 0; last_created = c; } // a spill (or chunk merge) went through the chunk creator
            since_spill += key.len() + val.len(); worst = worst.max(since_spill);
            if r.is_err() && fail_at.is_none() { cex(format!("C08 insert failed without injected fault: {}", r.unwrap_err())); }
            let bound = if realloc { 2 * budget } else { budget };
            if since_spill > bound { cex(format!("C08 {} bytes inserted since the last spill exceed {} (budget {} realloc={} max_chunks={})", since_spill, bound, budget, realloc, max_chunks)); }
            let l = peak.load(Ordering::SeqCst);
            if l > max_chunks as isize + 2 { cex(format!("C08 {} chunks alive at the same time, configured maximum {} (+2 allowed) realloc={} threshold={} fail_at={:?}", l, max_chunks, realloc, threshold, fail_at)); }
            inserted += key.len() + val.len(); i += 1;
        }
        if created.load(Ordering::SeqCst) == 0 { cex(format!("C08 {} bytes inserted but the chunk creator was never used (budget {})", inserted, budget)); }
        stat(&format!("run{}_spills_peak_worst", runs), (created.load(Ordering::SeqCst), peak.load(Ordering::SeqCst), worst));
        drop(s);
        if live.load(Ordering::SeqCst) != 0 { cex(format!("C08 {} chunks leaked after dropping the sorter", live.load(Ordering::SeqCst))); }
        runs += 1;
    }
    stat("runs", runs);
}
