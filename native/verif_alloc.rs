//! Bounded stand-in for the memory-management half of C17: every large block is freed (or reallocated) with exactly the layout
//! it was allocated with. The whole test binary runs under a checking global allocator; the system allocator ignores the layout
//! it is handed back, so a mismatch is otherwise silent undefined behaviour.
mod common;
use common::*;
use grenad::{CursorVec, MergeFunction, Sorter};
use std::alloc::{GlobalAlloc, Layout, System};
use std::borrow::Cow;
use std::sync::atomic::{AtomicUsize, Ordering::SeqCst};

const SLOTS: usize = 8192;
const TRACK_FROM: usize = 32 * 1024; // the sorter buffer is at least 128 KiB; small blocks are std's business
#[allow(clippy::declare_interior_mutable_const)]
const Z: AtomicUsize = AtomicUsize::new(0);
static PTRS: [AtomicUsize; SLOTS] = [Z; SLOTS];
static SIZES: [AtomicUsize; SLOTS] = [Z; SLOTS];
static ALIGNS: [AtomicUsize; SLOTS] = [Z; SLOTS];
static MISMATCHES: AtomicUsize = AtomicUsize::new(0);
static FIRST: [AtomicUsize; 4] = [Z; 4]; // alloc size, alloc align, free size, free align of the first mismatch
static TRACKED: AtomicUsize = AtomicUsize::new(0);
static LOST: AtomicUsize = AtomicUsize::new(0);

fn record(p: *mut u8, l: Layout) {
    if p.is_null() || l.size() < TRACK_FROM { return; }
    let start = (p as usize >> 4) % SLOTS;
    for i in 0..SLOTS {
        let s = (start + i) % SLOTS;
        if PTRS[s].compare_exchange(0, p as usize, SeqCst, SeqCst).is_ok() {
            SIZES[s].store(l.size(), SeqCst); ALIGNS[s].store(l.align(), SeqCst); TRACKED.fetch_add(1, SeqCst);
            return;
        }
    }
    LOST.fetch_add(1, SeqCst);
}
fn release(p: *mut u8, l: Layout) {
    let start = (p as usize >> 4) % SLOTS;
    for i in 0..SLOTS {
        let s = (start + i) % SLOTS;
        let cur = PTRS[s].load(SeqCst);
        if cur == p as usize {
            let (sz, al) = (SIZES[s].load(SeqCst), ALIGNS[s].load(SeqCst));
            if sz != l.size() || al != l.align() {
                if MISMATCHES.fetch_add(1, SeqCst) == 0 { FIRST[0].store(sz, SeqCst); FIRST[1].store(al, SeqCst); FIRST[2].store(l.size(), SeqCst); FIRST[3].store(l.align(), SeqCst); }
            }
            PTRS[s].store(0, SeqCst);
            return;
        }
        if cur == 0 && i > 64 { return; } // not tracked (small block, or table was full)
    }
}
struct Checking;
unsafe impl GlobalAlloc for Checking {
    unsafe fn alloc(&self, l: Layout) -> *mut u8 { let p = System.alloc(l); record(p, l); p }
    unsafe fn alloc_zeroed(&self, l: Layout) -> *mut u8 { let p = System.alloc_zeroed(l); record(p, l); p }
    unsafe fn dealloc(&self, p: *mut u8, l: Layout) { release(p, l); System.dealloc(p, l) }
    unsafe fn realloc(&self, p: *mut u8, l: Layout, new_size: usize) -> *mut u8 {
        release(p, l);
        let q = System.realloc(p, l, new_size);
        if !q.is_null() { record(q, Layout::from_size_align_unchecked(new_size, l.align())); } else { record(p, l); }
        q
    }
}
#[global_allocator]
static A: Checking = Checking;

#[derive(Clone, Copy)]
struct Concat;
impl MergeFunction for Concat {
    type Error = std::convert::Infallible;
    fn merge<'a>(&self, _key: &[u8], values: &[Cow<'a, [u8]>]) -> Result<Cow<'a, [u8]>, Self::Error> {
        if values.len() == 1 { return Ok(values[0].clone()); }
        Ok(Cow::Owned(values.iter().flat_map(|v| v.iter().copied()).collect()))
    }
}

#[test]
fn c17_layouts_match() {
    let mut runs = 0;
    // growth by reallocation (several doublings at once, then gradual), fixed 10 MiB buffer with spills, a sorter dropped unused,
    // a sorter dropped with pending entries, non-16-aligned budgets
    for (threshold, realloc, n, entry) in [(0usize, true, 2000usize, 200usize), (0, true, 3, 300_000), (0, false, 12_000, 1000), (11_000_003, false, 300, 1000), (10_485_761, true, 50_000, 300)] {
        for consume in 0..3 {
            let mut b = Sorter::builder(Concat);
            b.dump_threshold(threshold).allow_realloc(realloc).max_nb_chunks(3);
            let mut s = b.chunk_creator(CursorVec).build();
            if consume < 2 {
                for i in 0..n { let k = ((i * 7919) as u32 % 5000).to_be_bytes(); s.insert(&k, &vec![(i % 251) as u8; entry + i % 13]).unwrap_or_else(|e| cex(format!("C17 insert failed: {}", e))); }
            }
            match consume {
                0 => { let mut it = s.into_stream_merger_iter().unwrap_or_else(|e| cex(format!("C17 sorter failed: {}", e))); let mut c = 0; while let Some(_) = it.next().unwrap() { c += 1; } stat("keys", c); }
                _ => drop(s),
            }
            runs += 1;
            let m = MISMATCHES.load(SeqCst);
            if m > 0 {
                cex(format!("C17 a block allocated with layout (size {}, align {}) was freed / reallocated with layout (size {}, align {}): {} mismatching call(s) so far -- input: sorter with dump_threshold({}) allow_realloc({}), {} inserts of ~{}-byte values, then {}",
                    FIRST[0].load(SeqCst), FIRST[1].load(SeqCst), FIRST[2].load(SeqCst), FIRST[3].load(SeqCst), m, threshold, realloc, if consume < 2 { n } else { 0 }, entry,
                    ["streamed to the end", "dropped with pending entries", "dropped unused"][consume]));
            }
        }
    }
    stat("runs", runs); stat("tracked_blocks", TRACKED.load(SeqCst)); stat("untracked_because_table_full", LOST.load(SeqCst));
    if TRACKED.load(SeqCst) < 10 { cex("C17 layout check is vacuous: fewer than 10 large blocks were tracked".into()); }
}
