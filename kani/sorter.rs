// Appended to src/sorter.rs in a scratch copy (cfg(kani) only): the unsafe two-ended buffer (C17).
// Bounded in sizes (stated per harness), with all CBMC pointer / bounds / overflow checks on the real code.
#[cfg(kani)]
mod verif_kani {
    use super::*;

    /// layout agreement between allocation and deallocation, for every requested size up to 4 KiB + 1:
    /// the recorded length is the size rounded up to a multiple of 16 (what `alloc` was given), so `Drop`
    /// rebuilds the identical layout.
    #[kani::proof]
    fn c17_buffer_layout_alloc_dealloc() {
        let size: usize = kani::any();
        kani::assume(size >= 1 && size <= 4097);
        let buf = EntryBoundAlignedBuffer::new(size);
        assert!(buf.len % size_of::<EntryBound>() == 0, "recorded length is a multiple of the EntryBound size");
        assert!(buf.len >= size && buf.len < size + size_of::<EntryBound>(), "recorded length is the rounded-up request");
        assert!((buf.data.as_ptr() as usize) % align_of::<EntryBound>() == 0, "buffer is EntryBound aligned");
        let layout_at_drop = Layout::from_size_align(buf.len, align_of::<EntryBound>()).unwrap();
        let layout_at_alloc = Layout::from_size_align(size.div_ceil(16) * 16, 8).unwrap();
        assert!(layout_at_drop == layout_at_alloc, "dealloc layout == alloc layout");
        drop(buf);
    }

    /// a request that cannot be represented (rounded size would exceed isize::MAX, or rounding itself would wrap) must be
    /// refused by a defined panic on every path: no wrapped size, no zero-size allocation (complete: all such sizes)
    /// (the runner accepts exactly the two defined refusals as failed checks -- `expect`/`unwrap` panics, listed in
    /// kani/expected_panics.json -- and nothing else: an arithmetic-overflow check or a returned buffer fails the harness)
    #[kani::proof]
    fn c17_buffer_new_refuses_unrepresentable_sizes() {
        let size: usize = kani::any();
        kani::assume(size > isize::MAX as usize - 15);
        let buf = EntryBoundAlignedBuffer::new(size);
        core::mem::forget(buf);
        panic!("a buffer was returned for an unrepresentable request");
    }

    /// fits() is exact: an entry fits iff one more 16-byte bound and its bytes fit between the two ends
    #[kani::proof]
    fn c17_fits_exact_no_overflow() {
        let cap: usize = kani::any();
        kani::assume(cap >= 1 && cap <= 256);
        let mut e = Entries::with_capacity(cap);
        let (el, bc): (usize, usize) = (kani::any(), kani::any());
        kani::assume(bc <= 16 && el <= 256 && el + bc * 16 <= e.buffer.len());
        e.entries_len = el; e.bounds_count = bc;
        let k: [u8; 8] = kani::any(); let v: [u8; 8] = kani::any();
        let (a, b): (usize, usize) = (kani::any(), kani::any());
        kani::assume(a <= 8 && b <= 8);
        let fits = e.fits(&k[..a], &v[..b]);
        assert!(fits == (el + (bc + 1) * 16 + a + b <= e.buffer.len()));
        assert!(e.remaining() == e.buffer.len() - el - bc * 16);
        e.entries_len = 0; e.bounds_count = 0;
    }
}
