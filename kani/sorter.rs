// Appended to src/sorter.rs in a scratch copy (cfg(kani) only): the unsafe two-ended buffer (C17).
// Bounded in sizes (stated per harness), with all CBMC pointer / bounds / overflow checks on the real code.
#[cfg(kani)]
mod verif_kani {
    use super::*;

    /// layout agreement between allocation and deallocation, for every requested size up to 4 KiB + 1:
    /// the recorded length is the size rounded up to a multiple of 16 (what `alloc` was given), so `Drop`
    /// rebuilds the identical layout.
    #[kani::proof]
    fn c17_buffer_layout_alloc_dealloc() {
        let size: usize = kani::any();
        kani::assume(size >= 1 && size <= 4097);
        let buf = EntryBoundAlignedBuffer::new(size);
        assert!(buf.len % size_of::<EntryBound>() == 0, "recorded length is a multiple of the EntryBound size");
        assert!(buf.len >= size && buf.len < size + size_of::<EntryBound>(), "recorded length is the rounded-up request");
        assert!((buf.data.as_ptr() as usize) % align_of::<EntryBound>() == 0, "buffer is EntryBound aligned");
        let layout_at_drop = Layout::from_size_align(buf.len, align_of::<EntryBound>()).unwrap();
        let layout_at_alloc = Layout::from_size_align(size.div_ceil(16) * 16, 8).unwrap();
        assert!(layout_at_drop == layout_at_alloc, "dealloc layout == alloc layout");
        drop(buf);
    }

    /// two inserts of arbitrary sizes (0..=14 bytes of key+value each) into a buffer of 16 or 32 bytes: covers exact
    /// fit, one doubling and entries that need two doublings; then every stored entry is read back through iter().
    #[kani::proof]
    #[kani::unwind(20)]
    fn c17_entries_insert_realloc_iter() {
        let cap: usize = kani::any();
        kani::assume(cap >= 1 && cap <= 32);
        let mut e = Entries::with_capacity(cap);
        let k1: [u8; 4] = kani::any(); let v1: [u8; 10] = kani::any();
        let (a, b): (usize, usize) = (kani::any(), kani::any());
        kani::assume(a <= 4 && b <= 10);
        e.insert(&k1[..a], &v1[..b]);
        assert!(e.bounds_count == 1 && e.entries_len == a + b);
        assert!(e.entries_len + e.bounds_count * size_of::<EntryBound>() <= e.buffer.len());
        let k2: [u8; 4] = kani::any(); let v2: [u8; 10] = kani::any();
        let (c, d): (usize, usize) = (kani::any(), kani::any());
        kani::assume(c <= 4 && d <= 10);
        e.insert(&k2[..c], &v2[..d]);
        assert!(e.bounds_count == 2 && e.entries_len == a + b + c + d);
        assert!(e.entries_len + e.bounds_count * size_of::<EntryBound>() <= e.buffer.len());
        assert!(e.buffer.len() % size_of::<EntryBound>() == 0);
        let mut it = e.iter();
        let (rk1, rv1) = it.next().unwrap();
        assert!(rk1.len() == a && rv1.len() == b);
        if a > 0 { assert!(rk1[0] == k1[0] && rk1[a - 1] == k1[a - 1]); }
        if b > 0 { assert!(rv1[0] == v1[0] && rv1[b - 1] == v1[b - 1]); }
        let (rk2, rv2) = it.next().unwrap();
        assert!(rk2.len() == c && rv2.len() == d);
        if c > 0 { assert!(rk2[0] == k2[0] && rk2[c - 1] == k2[c - 1]); }
        if d > 0 { assert!(rv2[0] == v2[0] && rv2[d - 1] == v2[d - 1]); }
        assert!(it.next().is_none());
    }

    /// one insert that needs MORE than one doubling (entry of 16 + 4 + 30 = 50 bytes into a 16-byte buffer: 16 -> 32 -> 64),
    /// sizes concrete, contents symbolic: no arithmetic underflow, no out-of-buffer access, entry read back intact.
    #[kani::proof]
    #[kani::unwind(66)]
    fn c17_entries_insert_needs_two_doublings() {
        let mut e = Entries::with_capacity(16);
        let k: [u8; 4] = kani::any(); let v: [u8; 30] = kani::any();
        e.insert(&k[..], &v[..]);
        assert!(e.bounds_count == 1 && e.entries_len == 34);
        assert!(e.entries_len + e.bounds_count * size_of::<EntryBound>() <= e.buffer.len());
        let mut it = e.iter();
        let (rk, rv) = it.next().unwrap();
        assert!(rk.len() == 4 && rv.len() == 30);
        assert!(rk[0] == k[0] && rk[3] == k[3] && rv[0] == v[0] && rv[29] == v[29]);
        assert!(it.next().is_none());
    }

    /// fits() is exact: an entry fits iff one more 16-byte bound and its bytes fit between the two ends
    #[kani::proof]
    fn c17_fits_exact_no_overflow() {
        let cap: usize = kani::any();
        kani::assume(cap >= 1 && cap <= 256);
        let mut e = Entries::with_capacity(cap);
        let (el, bc): (usize, usize) = (kani::any(), kani::any());
        kani::assume(bc <= 16 && el <= 256 && el + bc * 16 <= e.buffer.len());
        e.entries_len = el; e.bounds_count = bc;
        let k: [u8; 8] = kani::any(); let v: [u8; 8] = kani::any();
        let (a, b): (usize, usize) = (kani::any(), kani::any());
        kani::assume(a <= 8 && b <= 8);
        let fits = e.fits(&k[..a], &v[..b]);
        assert!(fits == (el + (bc + 1) * 16 + a + b <= e.buffer.len()));
        assert!(e.remaining() == e.buffer.len() - el - bc * 16);
        e.entries_len = 0; e.bounds_count = 0;
    }
}
