// Appended to src/sorter.rs in a scratch copy (cfg(kani) only): the unsafe two-ended buffer (C17).
// Bounded in sizes (stated per harness), with all CBMC pointer / bounds / overflow checks on the real code.
#[cfg(kani)]
mod verif_kani {
    use super::*;

    /// the buffer handed out for every requested size up to 4 KiB + 1 is usable as C17 needs it: at least as long as requested,
    /// aligned for `EntryBound`, its first and last byte are inside the allocation, a layout of its recorded length exists, and
    /// dropping it trips none of CBMC's memory checks. (That `Drop` presents the *same* layout as `new` is observed on the real
    /// allocator by native:verif_alloc::c17_layouts_match -- Kani's deallocation model does not look at the alignment.)
    #[kani::proof]
    fn c17_buffer_layout_alloc_dealloc() {
        let size: usize = kani::any();
        kani::assume(size >= 1 && size <= 4097);
        let mut buf = EntryBoundAlignedBuffer::new(size);
        assert!(buf.len >= size, "the buffer is at least as long as requested");
        assert!((buf.data.as_ptr() as usize) % align_of::<EntryBound>() == 0, "buffer is EntryBound aligned");
        assert!(Layout::from_size_align(buf.len, align_of::<EntryBound>()).is_ok(), "a layout of the recorded length exists");
        let n = buf.len;
        buf[0] = 1; buf[n - 1] = 2;
        assert!(buf[0] == 1 && buf[n - 1] == 2);
        drop(buf);
    }

    /// proof-internal (supports the ASSUMED Verus contract EB.new.assumed, which the C08 "exactly the budget when reallocation is
    /// disabled" argument uses): the recorded length is the request rounded up to a multiple of 16. Another rounding keeps C17 and
    /// C08 but invalidates that assumed contract, so a failure here makes C08 / C17 undecided, not violated.
    #[kani::proof]
    fn c17_buffer_len_is_round16() {
        let size: usize = kani::any();
        kani::assume(size >= 1 && size <= 4097);
        let buf = EntryBoundAlignedBuffer::new(size);
        assert!(buf.len == size.div_ceil(16) * 16, "recorded length is the request rounded up to a multiple of 16");
        drop(buf);
    }

    /// a request that cannot be represented (rounded size would exceed isize::MAX, or rounding itself would wrap) must be
    /// refused by a defined panic on every path: no wrapped size, no zero-size allocation (complete: all such sizes)
    /// (the runner accepts exactly the two defined refusals as failed checks -- `expect`/`unwrap` panics, listed in
    /// kani/expected_panics.json -- and nothing else: an arithmetic-overflow check or a returned buffer fails the harness)
    #[kani::proof]
    fn c17_buffer_new_refuses_unrepresentable_sizes() {
        let size: usize = kani::any();
        kani::assume(size > isize::MAX as usize - 15);
        let buf = EntryBoundAlignedBuffer::new(size);
        core::mem::forget(buf);
        panic!("a buffer was returned for an unrepresentable request");
    }

    /// fits() is exact: an entry fits iff one more 16-byte bound and its bytes fit between the two ends
    #[kani::proof]
    fn c17_fits_exact_no_overflow() {
        let cap: usize = kani::any();
        kani::assume(cap >= 1 && cap <= 256);
        let mut e = Entries::with_capacity(cap);
        let (el, bc): (usize, usize) = (kani::any(), kani::any());
        kani::assume(bc <= 16 && el <= 256 && el + bc * 16 <= e.buffer.len());
        e.entries_len = el; e.bounds_count = bc;
        let k: [u8; 8] = kani::any(); let v: [u8; 8] = kani::any();
        let (a, b): (usize, usize) = (kani::any(), kani::any());
        kani::assume(a <= 8 && b <= 8);
        let fits = e.fits(&k[..a], &v[..b]);
        assert!(!fits || (el + (bc + 1) * 16 + a + b <= e.buffer.len()), "an entry reported to fit does fit between the two ends");
        assert!(e.remaining() == e.buffer.len() - el - bc * 16);
        e.entries_len = 0; e.bounds_count = 0;
    }

    /// proof-internal (supports the Verus clause E.fits.exact, which the C08 growth argument uses): `fits` refuses only what does
    /// not fit. A more cautious test keeps C08 and C17, so a failure here makes them undecided, not violated.
    #[kani::proof]
    fn c17_fits_refuses_only_what_does_not_fit() {
        let cap: usize = kani::any();
        kani::assume(cap >= 1 && cap <= 256);
        let mut e = Entries::with_capacity(cap);
        let (el, bc): (usize, usize) = (kani::any(), kani::any());
        kani::assume(bc <= 16 && el <= 256 && el + bc * 16 <= e.buffer.len());
        e.entries_len = el; e.bounds_count = bc;
        let k: [u8; 8] = kani::any(); let v: [u8; 8] = kani::any();
        let (a, b): (usize, usize) = (kani::any(), kani::any());
        kani::assume(a <= 8 && b <= 8);
        let fits = e.fits(&k[..a], &v[..b]);
        assert!(fits || !(el + (bc + 1) * 16 + a + b <= e.buffer.len()), "an entry that fits is not refused");
        e.entries_len = 0; e.bounds_count = 0;
    }
}
