// Appended to src/metadata.rs in a scratch copy (cfg(kani) only).
#[cfg(kani)]
mod verif_kani {
    use super::*;
    use std::io::Cursor;

    fn ref_valid(b: &[u8]) -> Option<(u8, u64, u8, u64, u8)> {
        // independent reading of the C13/C10 statements
        let n = b.len();
        if n < 4 { return None; }
        let magic = (b[n - 4] as u32) | ((b[n - 3] as u32) << 8) | ((b[n - 2] as u32) << 16) | ((b[n - 1] as u32) << 24);
        let le64 = |s: &[u8]| -> u64 { let mut v = 0u64; let mut i = 0; while i < 8 { v |= (s[i] as u64) << (8 * i); i += 1; } v };
        if magic == 0x6723D4C4 {
            if n < 22 { return None; }
            let t = &b[n - 22..];
            if t[8] > 5 { return None; }
            Some((2, le64(&t[0..8]), t[8], le64(&t[9..17]), t[17]))
        } else if magic == 0x76324D4C {
            if n < 21 { return None; }
            let t = &b[n - 21..];
            if t[8] > 5 { return None; }
            Some((1, le64(&t[0..8]), t[8], le64(&t[9..17]), 0))
        } else { None }
    }

    /// Metadata::read_from on the real std Cursor: arbitrary content, length 0..=26 (only the last 22 bytes and the
    /// length are ever inspected): accepts exactly the strings ending in a complete trailer and decodes its fields.
    #[kani::proof]
    #[kani::unwind(9)]
    fn c13_read_from_exact_on_cursor() {
        let bytes: [u8; 26] = kani::any();
        let len: usize = kani::any();
        kani::assume(len <= 26);
        let mut cur = Cursor::new(&bytes[..len]);
        let got = Metadata::read_from(&mut cur);
        match (ref_valid(&bytes[..len]), got) {
            (Some((ver, root, ct, count, levels)), Ok(m)) => {
                assert!((m.file_version == FileVersion::FormatV1) == (ver == 1));
                assert!(m.index_block_offset == root && m.compression_type as u8 == ct && m.entries_count == count && m.index_levels == levels);
            }
            (None, Err(_)) => {}
            (Some(_), Err(_)) => panic!("valid trailer rejected"),
            (None, Ok(_)) => panic!("invalid trailer accepted"),
        }
    }

    /// write_into then read_from is the identity for both versions and all field values (C10, C09)
    #[kani::proof]
    #[kani::unwind(9)]
    fn c10_metadata_roundtrip_all_fields() {
        let v1: bool = kani::any();
        let ct: u8 = kani::any();
        kani::assume(ct <= 5);
        let m = Metadata { file_version: if v1 { FileVersion::FormatV1 } else { FileVersion::FormatV2 }, index_block_offset: kani::any(),
            compression_type: CompressionType::from_u8(ct).unwrap(), entries_count: kani::any(), index_levels: if v1 { 0 } else { kani::any() } };
        let mut buf = [0u8; 22];
        let n = { let mut w = &mut buf[..]; m.write_into(&mut w).unwrap() };
        assert!(n == if v1 { 21 } else { 22 });
        // literal layout from the statements
        assert!(buf[8] == ct);
        let magic = (buf[n - 4] as u32) | ((buf[n - 3] as u32) << 8) | ((buf[n - 2] as u32) << 16) | ((buf[n - 1] as u32) << 24);
        assert!(magic == if v1 { 0x76324D4C } else { 0x6723D4C4 });
        assert!(buf[0] == (m.index_block_offset & 0xFF) as u8 && buf[7] == (m.index_block_offset >> 56) as u8);
        assert!(buf[9] == (m.entries_count & 0xFF) as u8 && buf[16] == (m.entries_count >> 56) as u8);
        if !v1 { assert!(buf[17] == m.index_levels); }
        let mut cur = Cursor::new(&buf[..n]);
        let back = Metadata::read_from(&mut cur).unwrap();
        assert!(back == m);
    }
}
