// Appended to src/compression.rs in a scratch copy (cfg(kani) only).
#[cfg(kani)]
mod verif_kani {
    use super::*;
    /// Codec `None` stores a block as it is: `compress` returns exactly the caller's bytes (borrowed or copied), whatever
    /// the level (C09 / C01; this is the compress half of the codec axiom `compress_spec(None, level, data) == data`
    /// used by the Verus contracts). Bounded: every content of every length 0..=16, every level.
    #[kani::proof]
    #[kani::unwind(18)]
    fn c09_compress_none_is_identity() {
        let arr: [u8; 16] = kani::any();
        let data = kani::slice::any_slice_of_array(&arr);
        let level: u32 = kani::any();
        match compress(CompressionType::None, level, data) {
            Ok(c) => {
                let b: &[u8] = &c;
                assert!(b.len() == data.len());
                let mut i = 0;
                while i < b.len() {
                    assert!(b[i] == data[i]);
                    i += 1;
                }
            }
            Err(_) => panic!("codec None cannot fail"),
        }
    }
    /// The codec id stored in the trailer and the dispatch agree on the variant order: ids 0..=5 decode to distinct variants
    /// whose discriminant is the id, every other byte is refused (C13 / C09; loop-free, all 256 values).
    #[kani::proof]
    fn c09_codec_id_all_bytes() {
        let v: u8 = kani::any();
        match CompressionType::from_u8(v) {
            Some(t) => assert!(v <= 5 && t as u8 == v),
            None => assert!(v > 5),
        }
    }
}
