// Appended to src/error.rs in a scratch copy (cfg(kani) only).
#[cfg(kani)]
mod verif_kani {
    use super::*;
    /// convert_merge_error is total on every non-merge error and keeps the variant (C12)
    #[kani::proof]
    fn c12_convert_merge_error_total() {
        let which: u8 = kani::any();
        kani::assume(which < 3);
        let e: Error<Infallible> = match which { 0 => Error::Io(io::Error::from(io::ErrorKind::Other)), 1 => Error::InvalidCompressionType, _ => Error::InvalidFormatVersion };
        let c: Error<u32> = e.convert_merge_error();
        match (which, c) { (0, Error::Io(_)) | (1, Error::InvalidCompressionType) | (2, Error::InvalidFormatVersion) => {}, _ => panic!("variant changed") }
    }
}
