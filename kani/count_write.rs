// Appended to src/count_write.rs in a scratch copy (cfg(kani) only).
#[cfg(kani)]
mod verif_kani {
    use super::*;
    /// an inner writer with an arbitrary schedule: accepts any n <= len or fails
    struct AnySink { accepted: u64 }
    impl Write for AnySink {
        fn write(&mut self, buf: &[u8]) -> io::Result<usize> {
            if kani::any() { return Err(io::Error::from(io::ErrorKind::Interrupted)); }
            let n: usize = kani::any();
            kani::assume(n <= buf.len());
            self.accepted += n as u64;
            Ok(n)
        }
        fn flush(&mut self) -> io::Result<()> { Ok(()) }
    }
    /// loop-free, full domain: after any three writes the counter equals the bytes the inner writer accepted (C11)
    #[kani::proof]
    fn c11_count_write_counts_accepted_bytes() {
        let mut cw = CountWrite::new(AnySink { accepted: 0 });
        let data = [0u8; 16];
        let (a, b, c): (usize, usize, usize) = (kani::any(), kani::any(), kani::any());
        kani::assume(a <= 16 && b <= 16 && c <= 16);
        let r1 = cw.write(&data[..a]);
        if let Ok(n) = r1 { assert!(n <= a); }
        let _ = cw.write(&data[..b]);
        let _ = cw.write(&data[..c]);
        assert!(cw.count() == cw.as_ref().accepted);
    }
}
