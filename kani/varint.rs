// Appended to src/varint.rs in a scratch copy (cfg(kani) only): complete proofs over the full u32 domain.
#[cfg(kani)]
mod verif_kani {
    use super::*;

    /// Reference LEB128 from the property statement (independent of the code under test).
    fn leb_ref(mut v: u32, out: &mut [u8; 5]) -> usize {
        let mut n = 0;
        loop {
            if v < 128 {
                out[n] = v as u8;
                return n + 1;
            }
            out[n] = (v % 128) as u8 + 128;
            v /= 128;
            n += 1;
        }
    }

    #[kani::proof]
    #[kani::unwind(11)]
    fn c14_varint_roundtrip_all_u32() {
        let v: u32 = kani::any();
        let tail: [u8; 9] = kani::any();
        let mut buf = [0u8; 10];
        let n = varint_encode32(&mut buf, v).len();
        let expect = if v < (1 << 7) { 1 } else if v < (1 << 14) { 2 } else if v < (1 << 21) { 3 } else if v < (1 << 28) { 4 } else { 5 };
        assert!(n == expect, "encoded length at framing boundaries");
        let mut r = [0u8; 5];
        let rn = leb_ref(v, &mut r);
        assert!(rn == n);
        let mut i = 0;
        while i < n {
            assert!(buf[i] == r[i], "encoded bytes are LEB128");
            i += 1;
        }
        // decode with an arbitrary continuation after the encoding
        let mut data = [0u8; 10];
        let mut i = 0;
        while i < 10 {
            data[i] = if i < n { buf[i] } else { tail[i - n] };
            i += 1;
        }
        let mut out = 0u32;
        let used = varint_decode32(&data[..], &mut out);
        assert!(out == v, "decode(encode(v) ++ tail) == v");
        assert!(used == n, "decode consumes exactly the encoded bytes");
        // decode with nothing after the encoding (slice shorter than 5 bytes)
        let mut out2 = 0u32;
        let used2 = varint_decode32(&buf[..n], &mut out2);
        assert!(out2 == v && used2 == n);
    }
}
