// C12: a merge function (or chunk storage) failure while the sorter streams its output into a writer
// must surface as Err from `Sorter::write_into_stream_writer`, never as success.
use std::borrow::Cow;
use std::cell::Cell;

use grenad::{CursorVec, Error, MergeFunction, Sorter, Writer};

/// Fails from its `limit + 1`-th call on.
struct FailAfter {
    calls: Cell<usize>,
    limit: usize,
}

impl MergeFunction for FailAfter {
    type Error = String;
    fn merge<'a>(&self, _key: &[u8], values: &[Cow<'a, [u8]>]) -> Result<Cow<'a, [u8]>, String> {
        self.calls.set(self.calls.get() + 1);
        if self.calls.get() > self.limit {
            return Err("merge function failure".to_string());
        }
        Ok(values[0].clone())
    }
}

#[test]
fn merge_failure_while_streaming_into_a_writer_is_reported() {
    // 10 distinct keys: the final flush of the in-memory entries calls the merge function 10 times,
    // the streaming merge calls it again for every key; the 14th call fails.
    let mut sorter =
        Sorter::builder(FailAfter { calls: Cell::new(0), limit: 13 }).chunk_creator(CursorVec).build();
    for i in 0..10u32 {
        sorter.insert(i.to_be_bytes(), b"value").unwrap();
    }

    let mut writer = Writer::memory();
    match sorter.write_into_stream_writer(&mut writer) {
        Err(Error::Merge(e)) => assert_eq!(e, "merge function failure"),
        Err(e) => panic!("the merge failure surfaced as a different error: {}", e),
        Ok(()) => panic!("write_into_stream_writer reported success although the merge function failed"),
    }
}
