// C07: the sorter must produce the sorted and merged inserts for EVERY configuration, including a
// maximum chunk count of 1 (the documented minimum), whenever data is spilled.
use std::borrow::Cow;
use std::convert::Infallible;

use grenad::{CursorVec, MergeFunction, Sorter};

struct Concat;
impl MergeFunction for Concat {
    type Error = Infallible;
    fn merge<'a>(&self, _key: &[u8], values: &[Cow<'a, [u8]>]) -> Result<Cow<'a, [u8]>, Infallible> {
        if values.len() == 1 {
            return Ok(values[0].clone());
        }
        Ok(Cow::Owned(values.iter().flat_map(|v| v.iter().copied()).collect()))
    }
}

#[test]
fn sorter_with_a_single_allowed_chunk_survives_a_spill() {
    let mut builder = Sorter::builder(Concat);
    builder.dump_threshold(0).allow_realloc(false).max_nb_chunks(1); // 10 MiB fixed buffer
    let mut sorter = builder.chunk_creator(CursorVec).build();

    // 24 MiB in 1 MiB values over 4 keys: at least two spills
    let value = vec![0xABu8; 1024 * 1024];
    for i in 0..24u32 {
        sorter.insert((i % 4).to_be_bytes(), &value).unwrap();
    }

    let mut iter = sorter.into_stream_merger_iter().unwrap();
    let mut got = Vec::new();
    while let Some((k, v)) = iter.next().unwrap() {
        got.push((k.to_vec(), v.len()));
    }
    let want: Vec<(Vec<u8>, usize)> = (0..4u32).map(|k| (k.to_be_bytes().to_vec(), 6 * 1024 * 1024)).collect();
    assert_eq!(got, want);
}
