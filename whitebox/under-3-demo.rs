// C11: results must not depend on whether the source reports `ErrorKind::Interrupted`
// (here: a file written with the snappy-pre-0.5 codec, read through a source that is interrupted
// on every other `read` call).
use std::io::{self, Cursor, Read, Seek, SeekFrom};

use grenad::{CompressionType, Reader, Writer};

struct Interrupting {
    inner: Cursor<Vec<u8>>,
    calls: usize,
}

impl Read for Interrupting {
    fn read(&mut self, buf: &mut [u8]) -> io::Result<usize> {
        self.calls += 1;
        if self.calls % 2 == 0 {
            return Err(io::Error::new(io::ErrorKind::Interrupted, "interrupted"));
        }
        self.inner.read(buf)
    }
}

impl Seek for Interrupting {
    fn seek(&mut self, pos: SeekFrom) -> io::Result<u64> {
        self.inner.seek(pos)
    }
}

fn scan<R: Read + Seek>(source: R) -> Vec<(Vec<u8>, Vec<u8>)> {
    let mut cursor = Reader::new(source).expect("open").into_cursor().expect("cursor");
    let mut out = Vec::new();
    while let Some((k, v)) = cursor.move_on_next().expect("scan") {
        out.push((k.to_vec(), v.to_vec()));
    }
    out
}

#[test]
fn snappy_pre_05_file_reads_the_same_through_an_interrupted_source() {
    let entries: Vec<(Vec<u8>, Vec<u8>)> =
        (0..3000u32).map(|i| (i.to_be_bytes().to_vec(), format!("value-{}", i * 7).into_bytes())).collect();

    let mut builder = Writer::builder();
    builder.compression_type(CompressionType::SnappyPre05).index_levels(1);
    let mut writer = builder.memory();
    for (k, v) in &entries {
        writer.insert(k, v).unwrap();
    }
    let bytes = writer.into_inner().unwrap();

    assert_eq!(scan(Cursor::new(bytes.clone())), entries);
    assert_eq!(scan(Interrupting { inner: Cursor::new(bytes), calls: 0 }), entries);
}
