// C12: a failure of the chunk storage must surface as Err from the call in progress; the sorter must
// never report success (and silently lose the chunk). Here the first chunk fails when the sorter
// rewinds it in order to merge the chunks (max_nb_chunks reached).
use std::borrow::Cow;
use std::cell::Cell;
use std::convert::Infallible;
use std::io::{self, Cursor, Read, Seek, SeekFrom, Write};

use grenad::{ChunkCreator, MergeFunction, Sorter};

struct Concat;
impl MergeFunction for Concat {
    type Error = Infallible;
    fn merge<'a>(&self, _key: &[u8], values: &[Cow<'a, [u8]>]) -> Result<Cow<'a, [u8]>, Infallible> {
        if values.len() == 1 {
            return Ok(values[0].clone());
        }
        Ok(Cow::Owned(values.iter().flat_map(|v| v.iter().copied()).collect()))
    }
}

/// In-memory chunk; the chunk created first fails its first `seek`.
struct Chunk {
    inner: Cursor<Vec<u8>>,
    fail_next_seek: bool,
}
impl Write for Chunk {
    fn write(&mut self, buf: &[u8]) -> io::Result<usize> {
        self.inner.write(buf)
    }
    fn flush(&mut self) -> io::Result<()> {
        self.inner.flush()
    }
}
impl Read for Chunk {
    fn read(&mut self, buf: &mut [u8]) -> io::Result<usize> {
        self.inner.read(buf)
    }
}
impl Seek for Chunk {
    fn seek(&mut self, pos: SeekFrom) -> io::Result<u64> {
        if self.fail_next_seek {
            self.fail_next_seek = false;
            return Err(io::Error::new(io::ErrorKind::Other, "injected seek failure"));
        }
        self.inner.seek(pos)
    }
}

struct Chunks {
    created: Cell<usize>,
}
impl ChunkCreator for Chunks {
    type Chunk = Chunk;
    type Error = io::Error;
    fn create(&self) -> Result<Chunk, io::Error> {
        self.created.set(self.created.get() + 1);
        Ok(Chunk { inner: Cursor::new(Vec::new()), fail_next_seek: self.created.get() == 1 })
    }
}

#[test]
fn chunk_storage_failure_during_a_chunk_merge_is_reported() {
    let mut builder = Sorter::builder(Concat);
    builder.dump_threshold(0).allow_realloc(false).max_nb_chunks(2); // 10 MiB fixed buffer
    let mut sorter = builder.chunk_creator(Chunks { created: Cell::new(0) }).build();

    // 26 distinct keys with 1 MiB values: two spills, then the two chunks are merged
    let run = || -> Result<usize, String> {
        for i in 0..26u32 {
            sorter.insert(i.to_be_bytes(), vec![i as u8; 1024 * 1024]).map_err(|e| e.to_string())?;
        }
        let mut iter = sorter.into_stream_merger_iter().map_err(|e| e.to_string())?;
        let mut n = 0;
        while let Some(_) = iter.next().map_err(|e| e.to_string())? {
            n += 1;
        }
        Ok(n)
    };
    match run() {
        Err(e) => assert!(e.contains("injected seek failure"), "the failure surfaced as a different error: {}", e),
        Ok(n) => panic!("the sorter reported success ({} of 26 keys in its output) although its chunk storage failed", n),
    }
}
