// C07 (chunk storage is part of the configuration): a sorter built with the DEFAULT chunk creator
// (temporary files) must give back exactly the sorted and merged inserts, like any other chunk storage.
use std::borrow::Cow;
use std::convert::Infallible;

use grenad::{MergeFunction, Sorter};

struct Concat;
impl MergeFunction for Concat {
    type Error = Infallible;
    fn merge<'a>(&self, _key: &[u8], values: &[Cow<'a, [u8]>]) -> Result<Cow<'a, [u8]>, Infallible> {
        if values.len() == 1 {
            return Ok(values[0].clone());
        }
        Ok(Cow::Owned(values.iter().flat_map(|v| v.iter().copied()).collect()))
    }
}

#[test]
fn sorter_with_default_tempfile_chunks_returns_its_entries() {
    let mut sorter = Sorter::new(Concat);
    sorter.insert("b", "1").unwrap();
    sorter.insert("a", "2").unwrap();
    sorter.insert("b", "3").unwrap();

    let mut iter = sorter.into_stream_merger_iter().expect("no component failed, yet the sorter reports an error");
    let mut got = Vec::new();
    while let Some((k, v)) = iter.next().expect("stream") {
        got.push((k.to_vec(), v.to_vec()));
    }
    assert_eq!(got, vec![(b"a".to_vec(), b"2".to_vec()), (b"b".to_vec(), b"13".to_vec())]);
}
