// C01: the round trip is exact for arbitrary values (including entries much larger than a block)
// under every codec -- here one 17 MiB value with the snappy-pre-0.5 codec.
use std::io::Cursor;

use grenad::{CompressionType, Reader, Writer};

#[test]
fn large_value_round_trips_with_snappy_pre_05() {
    let big: Vec<u8> = (0..17 * 1024 * 1024u32).map(|i| (i.wrapping_mul(2_654_435_761) >> 24) as u8).collect();
    let entries: Vec<(Vec<u8>, Vec<u8>)> =
        vec![(b"a".to_vec(), b"small".to_vec()), (b"b".to_vec(), big), (b"c".to_vec(), Vec::new())];

    let mut builder = Writer::builder();
    builder.compression_type(CompressionType::SnappyPre05);
    let mut writer = builder.memory();
    for (k, v) in &entries {
        writer.insert(k, v).unwrap();
    }
    let bytes = writer.into_inner().unwrap();

    let reader = Reader::new(Cursor::new(bytes)).unwrap();
    assert_eq!(reader.len(), 3);
    let mut cursor = reader.into_cursor().unwrap();
    let mut got = Vec::new();
    while let Some((k, v)) = cursor.move_on_next().expect("forward scan of a freshly written file") {
        got.push((k.to_vec(), v.to_vec()));
    }
    assert!(got == entries, "scan returned {} entries, not the 3 inserted ones byte for byte", got.len());
}
