//! C01: "... finishing the writer yields a file that opens successfully, reports an entry count equal to the number of
//! inserts ... and the empty file scans as empty."  `Writer::finish` and `Writer::into_inner` must leave the same bytes in the sink.
use std::io::Cursor;

use grenad::{CompressionType, Reader, Writer};

fn finished(levels: u8, n: u32) -> Vec<u8> {
    let mut sink = Vec::new();
    {
        let mut builder = Writer::builder();
        builder.index_levels(levels).compression_type(CompressionType::None);
        let mut w = builder.build(&mut sink);
        for i in 0..n {
            w.insert(i.to_be_bytes(), b"v").unwrap();
        }
        w.finish().unwrap();
    }
    sink
}

fn with_into_inner(levels: u8, n: u32) -> Vec<u8> {
    let mut builder = Writer::builder();
    builder.index_levels(levels).compression_type(CompressionType::None);
    let mut w = builder.build(Vec::new());
    for i in 0..n {
        w.insert(i.to_be_bytes(), b"v").unwrap();
    }
    w.into_inner().unwrap()
}

#[test]
fn finish_of_an_empty_writer_yields_a_readable_empty_file() {
    for levels in [0u8, 1, 3] {
        for n in [0u32, 1, 500] {
            let bytes = finished(levels, n);
            assert_eq!(bytes, with_into_inner(levels, n), "finish() and into_inner() disagree (levels {}, {} entries)", levels, n);
            let reader = Reader::new(Cursor::new(&bytes[..]))
                .unwrap_or_else(|e| panic!("file finished after {} inserts ({} bytes) does not open: {}", n, bytes.len(), e));
            assert_eq!(reader.len(), n as u64);
            assert_eq!(reader.is_empty(), n == 0);
            let mut cursor = reader.into_cursor().unwrap();
            let mut seen = 0;
            while let Some(_) = cursor.move_on_next().unwrap() {
                seen += 1;
            }
            assert_eq!(seen, n);
        }
    }
}
