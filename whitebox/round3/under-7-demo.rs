//! C12: "If the sink, source, chunk storage ... fails at any point of any operation, the public call in progress returns an error
//! carrying that failure (the I/O error as an I/O error ...)".  A source that times out (a network file system, an object store)
//! must be told apart from a corrupted file: callers retry on the former.
use std::io::{self, Cursor, Read, Seek, SeekFrom};

use grenad::{CompressionType, Error, Reader, Writer};

/// Fails its `fail_at`-th call (reads and seeks are both counted) with `TimedOut`.
struct Flaky {
    inner: Cursor<Vec<u8>>,
    calls: usize,
    fail_at: usize,
}

impl Read for Flaky {
    fn read(&mut self, buf: &mut [u8]) -> io::Result<usize> {
        self.calls += 1;
        if self.calls == self.fail_at {
            return Err(io::Error::new(io::ErrorKind::TimedOut, "the storage did not answer in time"));
        }
        self.inner.read(buf)
    }
}

impl Seek for Flaky {
    fn seek(&mut self, pos: SeekFrom) -> io::Result<u64> {
        self.calls += 1;
        if self.calls == self.fail_at {
            return Err(io::Error::new(io::ErrorKind::TimedOut, "the storage did not answer in time"));
        }
        self.inner.seek(pos)
    }
}

fn scan(bytes: &[u8], fail_at: usize) -> (Result<usize, Error>, usize) {
    let mut src = Flaky { inner: Cursor::new(bytes.to_vec()), calls: 0, fail_at };
    let r = (|| {
        let mut cursor = Reader::new(&mut src)?.into_cursor()?;
        let mut n = 0;
        while let Some(_) = cursor.move_on_next()? {
            n += 1;
        }
        Ok(n)
    })();
    (r, src.calls)
}

#[test]
fn a_timeout_of_the_source_is_reported_as_a_timeout() {
    for ct in [CompressionType::None, CompressionType::Snappy, CompressionType::SnappyPre05] {
        let mut builder = Writer::builder();
        builder.compression_type(ct).index_levels(1);
        let mut writer = builder.memory();
        for i in 0..3000u32 {
            writer.insert(i.to_be_bytes(), b"some value").unwrap();
        }
        let bytes = writer.into_inner().unwrap();

        let (clean, total) = scan(&bytes, 0);
        assert_eq!(clean.unwrap(), 3000);
        for k in 1..=total {
            match scan(&bytes, k).0 {
                Err(Error::Io(e)) => assert_eq!(
                    e.kind(),
                    io::ErrorKind::TimedOut,
                    "codec {:?}: the source timed out at its call #{} of {} but the error says: {:?}",
                    ct, k, total, e
                ),
                other => panic!("codec {:?}: the source failed at its call #{} but the scan returned {:?}", ct, k, other.map_err(|e| e.to_string())),
            }
        }
    }
}
