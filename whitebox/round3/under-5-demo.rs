//! C07: "For every sequence of inserted pairs ... and every configuration (memory budget, reallocation policy, ...), the sorter's
//! output has strictly ascending keys that are exactly the distinct inserted keys ..."
//! With reallocation allowed the budget is only compared with the size of the growing buffer: `dump_threshold(usize::MAX)` is
//! the way to say "keep everything in memory, never spill".
use std::borrow::Cow;
use std::convert::Infallible;

use grenad::{CursorVec, MergeFunction, Sorter};

struct Concat;

impl MergeFunction for Concat {
    type Error = Infallible;
    fn merge<'a>(&self, _key: &[u8], values: &[Cow<'a, [u8]>]) -> Result<Cow<'a, [u8]>, Infallible> {
        if values.len() == 1 {
            return Ok(values[0].clone());
        }
        Ok(Cow::Owned(values.iter().flat_map(|v| v.iter().copied()).collect()))
    }
}

fn run(threshold: usize) -> Vec<(Vec<u8>, Vec<u8>)> {
    let mut builder = Sorter::builder(Concat);
    builder.dump_threshold(threshold).allow_realloc(true);
    let mut sorter = builder.chunk_creator(CursorVec).build();
    for i in (0..5000u32).rev() {
        sorter.insert((i % 50).to_be_bytes(), i.to_be_bytes()).unwrap();
    }
    let mut out = Vec::new();
    let mut iter = sorter.into_stream_merger_iter().unwrap();
    while let Some((k, v)) = iter.next().unwrap() {
        out.push((k.to_vec(), v.to_vec()));
    }
    out
}

#[test]
fn a_reallocating_sorter_accepts_an_unlimited_budget() {
    let expected = run(64 * 1024 * 1024);
    assert_eq!(expected.len(), 50);
    assert!(expected.iter().all(|(_, v)| v.len() == 400));
    assert_eq!(run(usize::MAX), expected);
    assert_eq!(run(isize::MAX as usize + 1), expected);
}
