//! C01: "For every strictly ascending sequence of distinct keys ... and every writer configuration (compression codec and level,
//! block size, in-block index interval, number of index levels), finishing the writer yields a file that opens successfully ..."
//! `block_size(usize::MAX)` is how one asks for a single data block (the block is never cut).
use std::io::Cursor;

use grenad::{Reader, Writer};

fn roundtrip(block_size: usize) -> Vec<(Vec<u8>, Vec<u8>)> {
    let mut builder = Writer::builder();
    builder.block_size(block_size).index_levels(1);
    let mut writer = builder.memory();
    for i in 0..3000u32 {
        writer.insert(i.to_be_bytes(), (i * 7).to_le_bytes()).unwrap();
    }
    let bytes = writer.into_inner().unwrap();
    let mut cursor = Reader::new(Cursor::new(bytes)).unwrap().into_cursor().unwrap();
    let mut out = Vec::new();
    while let Some((k, v)) = cursor.move_on_next().unwrap() {
        out.push((k.to_vec(), v.to_vec()));
    }
    out
}

#[test]
fn a_writer_can_be_asked_for_a_single_data_block() {
    let expected: Vec<_> = (0..3000u32).map(|i| (i.to_be_bytes().to_vec(), (i * 7).to_le_bytes().to_vec())).collect();
    assert_eq!(roundtrip(4096), expected);
    assert_eq!(roundtrip(usize::MAX), expected);
    assert_eq!(roundtrip(isize::MAX as usize + 1), expected);
}
