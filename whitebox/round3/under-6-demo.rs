//! C01: "... and every writer configuration (compression codec and level, block size, ...), finishing the writer yields a file
//! that opens successfully ... whose forward scan returns exactly the inserted pairs".  C12: "When no component fails, no error
//! is reported."  The level is a plain `u32`; codecs that have no such level (or no levels at all) have always clamped / ignored it.
use std::io::Cursor;

use grenad::{CompressionType, Reader, Writer};

fn roundtrip(ct: CompressionType, level: u32) -> Result<usize, String> {
    let mut builder = Writer::builder();
    builder.compression_type(ct).compression_level(level);
    let mut writer = builder.memory();
    for i in 0..2000u32 {
        writer.insert(i.to_be_bytes(), b"some value").map_err(|e| format!("insert #{}: {}", i, e))?;
    }
    let bytes = writer.into_inner().map_err(|e| format!("into_inner: {}", e))?;
    let mut cursor = Reader::new(Cursor::new(bytes)).unwrap().into_cursor().unwrap();
    let mut n = 0;
    while let Some((k, v)) = cursor.move_on_next().unwrap() {
        assert_eq!(k, (n as u32).to_be_bytes());
        assert_eq!(v, b"some value");
        n += 1;
    }
    Ok(n)
}

#[test]
fn every_compression_level_is_accepted() {
    for ct in [CompressionType::None, CompressionType::Snappy, CompressionType::SnappyPre05] {
        for level in [0u32, 9, 22, 23, 100, u32::MAX] {
            assert_eq!(roundtrip(ct, level), Ok(2000), "codec {:?} level {}", ct, level);
        }
    }
}
