//! C07: "For every sequence of inserted pairs ... and every configuration (memory budget, reallocation policy, maximum chunk
//! count, ...), the sorter's output has strictly ascending keys that are exactly the distinct inserted keys ..."
//! `max_nb_chunks(usize::MAX)` is the way to say "never merge chunks together".
use std::borrow::Cow;
use std::convert::Infallible;

use grenad::{CursorVec, MergeFunction, Sorter};

struct Concat;

impl MergeFunction for Concat {
    type Error = Infallible;
    fn merge<'a>(&self, _key: &[u8], values: &[Cow<'a, [u8]>]) -> Result<Cow<'a, [u8]>, Infallible> {
        if values.len() == 1 {
            return Ok(values[0].clone());
        }
        Ok(Cow::Owned(values.iter().flat_map(|v| v.iter().copied()).collect()))
    }
}

fn run(max_nb_chunks: usize) -> Vec<(Vec<u8>, Vec<u8>)> {
    let mut builder = Sorter::builder(Concat);
    builder.max_nb_chunks(max_nb_chunks);
    let mut sorter = builder.chunk_creator(CursorVec).build();
    for i in (0..100u32).rev() {
        sorter.insert((i % 10).to_be_bytes(), [i as u8]).unwrap();
    }
    let mut out = Vec::new();
    let mut iter = sorter.into_stream_merger_iter().unwrap();
    while let Some((k, v)) = iter.next().unwrap() {
        out.push((k.to_vec(), v.to_vec()));
    }
    out
}

#[test]
fn a_sorter_that_never_merges_its_chunks_can_be_built() {
    let expected = run(25);
    assert_eq!(expected.len(), 10);
    // "never merge the chunks": any usize is a legal maximum
    assert_eq!(run(usize::MAX), expected);
    assert_eq!(run(usize::MAX / 2), expected);
    assert_eq!(run(1 << 58), expected);
}
