//! C14: "Every key or value length from 0 to 2^32-1 is encoded by the entry framing ... so an entry is returned with exactly the
//! key and value bytes that were inserted whatever their lengths"; C01: "arbitrary values (including ... entries larger than a
//! block) ... Nothing is lost, duplicated, reordered, truncated or altered".
//! (needs ~5 GiB of memory: one value just above 1 GiB)
use std::io::Cursor;

use grenad::{Reader, Writer};

#[test]
fn a_value_just_above_one_gib_is_read_back() {
    let big_len = (1usize << 30) + 5;
    let mut big = vec![0xABu8; big_len];
    big[0] = 1;
    big[big_len / 2] = 2;
    big[big_len - 1] = 3;

    let mut writer = Writer::memory();
    writer.insert(b"a", b"small").unwrap();
    writer.insert(b"big", &big).unwrap();
    writer.insert(b"c", b"").unwrap();
    let bytes = writer.into_inner().unwrap();

    let reader = Reader::new(Cursor::new(&bytes[..])).unwrap();
    assert_eq!(reader.len(), 3);
    let mut cursor = reader.into_cursor().unwrap();

    let (k, v) = cursor.move_on_next().expect("reading the first entry").unwrap();
    assert_eq!((k, v), (&b"a"[..], &b"small"[..]));
    let (k, v) = cursor.move_on_next().expect("reading the entry that holds the 1 GiB + 5 bytes value").unwrap();
    assert_eq!(k, b"big");
    assert_eq!(v.len(), big_len);
    assert!(v == &big[..]);
    let (k, v) = cursor.move_on_next().expect("reading the last entry").unwrap();
    assert_eq!((k, v), (&b"c"[..], &b""[..]));
    assert!(cursor.move_on_next().unwrap().is_none());

    // and it can be looked up
    let (k, v) = cursor.move_on_key_equal_to(b"big").expect("seeking the big entry").unwrap();
    assert_eq!(k, b"big");
    assert_eq!(v.len(), big_len);
}
