// C06: a key held by several sources yields the merge function applied once to ALL its values,
// ordered by source position -- also when some sources hold byte-for-byte the same value.
use std::borrow::Cow;
use std::convert::{Infallible, TryInto};
use std::io::Cursor;

use grenad::{MergeFunction, Merger, Reader, ReaderCursor, Writer};

/// The merge function of the crate documentation: sums u32 counters.
struct SumU32;
impl MergeFunction for SumU32 {
    type Error = Infallible;
    fn merge<'a>(&self, _key: &[u8], values: &[Cow<'a, [u8]>]) -> Result<Cow<'a, [u8]>, Infallible> {
        if values.len() == 1 {
            return Ok(values[0].clone());
        }
        let sum: u32 = values.iter().map(|v| u32::from_be_bytes(v.as_ref().try_into().unwrap())).sum();
        Ok(Cow::Owned(sum.to_be_bytes().to_vec()))
    }
}

fn source(entries: &[(&str, u32)]) -> ReaderCursor<Cursor<Vec<u8>>> {
    let mut w = Writer::memory();
    for (k, v) in entries {
        w.insert(k, v.to_be_bytes()).unwrap();
    }
    Reader::new(Cursor::new(w.into_inner().unwrap())).unwrap().into_cursor().unwrap()
}

#[test]
fn equal_values_from_different_sources_are_all_merged() {
    let merger = Merger::builder(SumU32)
        .add(source(&[("first-counter", 32), ("second-counter", 5)]))
        .add(source(&[("first-counter", 32), ("second-counter", 7)]))
        .add(source(&[("first-counter", 64), ("second-counter", 7)]))
        .build();
    let mut iter = merger.into_stream_merger_iter().unwrap();
    let mut got = Vec::new();
    while let Some((k, v)) = iter.next().unwrap() {
        got.push((String::from_utf8(k.to_vec()).unwrap(), u32::from_be_bytes(v.try_into().unwrap())));
    }
    assert_eq!(got, vec![("first-counter".to_string(), 128), ("second-counter".to_string(), 19)]);
}
