// C17: every buffer of the sorter must be freed with the layout it was allocated with.
// A checking global allocator records the layout of every large allocation (the sorter buffers start
// at 128 KiB) and compares it with the layout handed to `dealloc`.
use std::alloc::{GlobalAlloc, Layout, System};
use std::borrow::Cow;
use std::convert::Infallible;
use std::sync::atomic::{AtomicUsize, Ordering};

use grenad::{CursorVec, MergeFunction, Sorter};

const SLOTS: usize = 64;
const TRACK_FROM: usize = 100_000;

struct Checking;

static PTRS: [AtomicUsize; SLOTS] = [const { AtomicUsize::new(0) }; SLOTS];
static SIZES: [AtomicUsize; SLOTS] = [const { AtomicUsize::new(0) }; SLOTS];
static ALIGNS: [AtomicUsize; SLOTS] = [const { AtomicUsize::new(0) }; SLOTS];
static TRACKED_FREES: AtomicUsize = AtomicUsize::new(0);
static MISMATCHES: AtomicUsize = AtomicUsize::new(0);
static LAST_BAD_SIZE: AtomicUsize = AtomicUsize::new(0);
static LAST_BAD_ALIGN: AtomicUsize = AtomicUsize::new(0);
static LAST_GOOD_ALIGN: AtomicUsize = AtomicUsize::new(0);

unsafe impl GlobalAlloc for Checking {
    unsafe fn alloc(&self, layout: Layout) -> *mut u8 {
        let p = System.alloc(layout);
        if !p.is_null() && layout.size() >= TRACK_FROM {
            for i in 0..SLOTS {
                if PTRS[i].compare_exchange(0, p as usize, Ordering::SeqCst, Ordering::SeqCst).is_ok() {
                    SIZES[i].store(layout.size(), Ordering::SeqCst);
                    ALIGNS[i].store(layout.align(), Ordering::SeqCst);
                    break;
                }
            }
        }
        p
    }
    unsafe fn dealloc(&self, p: *mut u8, layout: Layout) {
        for i in 0..SLOTS {
            if PTRS[i].load(Ordering::SeqCst) == p as usize {
                TRACKED_FREES.fetch_add(1, Ordering::SeqCst);
                let (size, align) = (SIZES[i].load(Ordering::SeqCst), ALIGNS[i].load(Ordering::SeqCst));
                if size != layout.size() || align != layout.align() {
                    MISMATCHES.fetch_add(1, Ordering::SeqCst);
                    LAST_BAD_SIZE.store(layout.size(), Ordering::SeqCst);
                    LAST_BAD_ALIGN.store(layout.align(), Ordering::SeqCst);
                    LAST_GOOD_ALIGN.store(align, Ordering::SeqCst);
                }
                PTRS[i].store(0, Ordering::SeqCst);
                break;
            }
        }
        System.dealloc(p, layout)
    }
    // realloc: default implementation (alloc + copy + dealloc), so that it goes through the two hooks above
}

#[global_allocator]
static GLOBAL: Checking = Checking;

struct Concat;
impl MergeFunction for Concat {
    type Error = Infallible;
    fn merge<'a>(&self, _key: &[u8], values: &[Cow<'a, [u8]>]) -> Result<Cow<'a, [u8]>, Infallible> {
        Ok(Cow::Owned(values.iter().flat_map(|v| v.iter().copied()).collect()))
    }
}

#[test]
fn sorter_buffers_are_freed_with_the_layout_they_were_allocated_with() {
    let before = TRACKED_FREES.load(Ordering::SeqCst);
    {
        let mut sorter = Sorter::builder(Concat).chunk_creator(CursorVec).build();
        // ~600 KiB of entries: the 128 KiB buffer is reallocated (and the old one freed) a few times
        for i in 0..6000u32 {
            sorter.insert(i.to_be_bytes(), [7u8; 80]).unwrap();
        }
        let mut iter = sorter.into_stream_merger_iter().unwrap();
        let mut n = 0;
        while let Some(_) = iter.next().unwrap() {
            n += 1;
        }
        assert_eq!(n, 6000);
    }
    assert!(TRACKED_FREES.load(Ordering::SeqCst) > before, "the checking allocator saw no sorter buffer being freed");
    assert_eq!(
        MISMATCHES.load(Ordering::SeqCst),
        0,
        "a buffer was freed with Layout(size {}, align {}) but had been allocated with align {}",
        LAST_BAD_SIZE.load(Ordering::SeqCst),
        LAST_BAD_ALIGN.load(Ordering::SeqCst),
        LAST_GOOD_ALIGN.load(Ordering::SeqCst)
    );
}
