// C06: sources added with `push`/`add` and then `extend` must all take part in the merge,
// in the order in which they were added.
use std::borrow::Cow;
use std::convert::Infallible;
use std::io::Cursor;

use grenad::{MergeFunction, Merger, Reader, ReaderCursor, Writer};

struct Join;
impl MergeFunction for Join {
    type Error = Infallible;
    fn merge<'a>(&self, _key: &[u8], values: &[Cow<'a, [u8]>]) -> Result<Cow<'a, [u8]>, Infallible> {
        if values.len() == 1 {
            return Ok(values[0].clone());
        }
        let mut out = Vec::new();
        for (i, v) in values.iter().enumerate() {
            if i > 0 {
                out.push(b'|');
            }
            out.extend_from_slice(v);
        }
        Ok(Cow::Owned(out))
    }
}

fn source(entries: &[(&str, &str)]) -> ReaderCursor<Cursor<Vec<u8>>> {
    let mut w = Writer::memory();
    for (k, v) in entries {
        w.insert(k, v).unwrap();
    }
    Reader::new(Cursor::new(w.into_inner().unwrap())).unwrap().into_cursor().unwrap()
}

#[test]
fn extend_appends_to_the_sources_already_added() {
    let mut builder = Merger::builder(Join);
    builder.push(source(&[("a", "a0"), ("b", "b0")]));
    builder.extend(vec![source(&[("b", "b1"), ("c", "c1")]), source(&[("b", "b2"), ("d", "d2")])]);

    let mut iter = builder.build().into_stream_merger_iter().unwrap();
    let mut got = Vec::new();
    while let Some((k, v)) = iter.next().unwrap() {
        got.push((String::from_utf8(k.to_vec()).unwrap(), String::from_utf8(v.to_vec()).unwrap()));
    }
    let want: Vec<(String, String)> = [("a", "a0"), ("b", "b0|b1|b2"), ("c", "c1"), ("d", "d2")]
        .iter()
        .map(|(k, v)| (k.to_string(), v.to_string()))
        .collect();
    assert_eq!(got, want);
}
