//! C07: with an associative merge function that returns a lone value unchanged, each key's value is the merge of
//! *all* values inserted for it, in insertion order (stable algorithm, the default). "The last write wins" is such a
//! function; an empty value is a value like any other (e.g. a tombstone).
use std::borrow::Cow;
use std::collections::BTreeMap;
use std::convert::Infallible;

use grenad::{CursorVec, MergeFunction, Sorter};

struct LastWins;
impl MergeFunction for LastWins {
    type Error = Infallible;
    fn merge<'a>(&self, _key: &[u8], values: &[Cow<'a, [u8]>]) -> Result<Cow<'a, [u8]>, Infallible> {
        Ok(values.last().expect("at least one value").clone())
    }
}

#[test]
fn empty_values_take_part_in_the_merge() {
    let mut sorter = Sorter::builder(LastWins).chunk_creator(CursorVec).build();
    let mut want: BTreeMap<Vec<u8>, Vec<u8>> = BTreeMap::new();
    let inserts: Vec<(&[u8], &[u8])> = vec![
        (b"apple", b"red"),
        (b"banana", b"yellow"),
        (b"apple", b""), // deleted
        (b"cherry", b""),
        (b"cherry", b"dark red"),
        (b"banana", b"green"),
        (b"banana", b""), // deleted
        (b"date", b""),
    ];
    for (k, v) in &inserts {
        sorter.insert(k, v).unwrap();
        want.insert(k.to_vec(), v.to_vec());
    }
    let mut got = BTreeMap::new();
    let mut iter = sorter.into_stream_merger_iter().unwrap();
    while let Some((k, v)) = iter.next().unwrap() {
        got.insert(k.to_vec(), v.to_vec());
    }
    assert_eq!(got, want);
}
