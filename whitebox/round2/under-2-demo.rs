//! C12: when the user-supplied chunk creator fails, the call in progress returns an error *carrying that failure*
//! (the I/O error as an I/O error: same kind, same payload).
use std::borrow::Cow;
use std::cell::Cell;
use std::convert::Infallible;
use std::io::{self, Cursor};

use grenad::{ChunkCreator, Error, MergeFunction, Sorter};

struct Concat;
impl MergeFunction for Concat {
    type Error = Infallible;
    fn merge<'a>(&self, _key: &[u8], values: &[Cow<'a, [u8]>]) -> Result<Cow<'a, [u8]>, Infallible> {
        Ok(values.iter().flat_map(|v| v.iter().copied()).collect())
    }
}

/// Chunk storage with a quota: the `fail_at`-th chunk cannot be created.
struct Quota {
    created: Cell<usize>,
    fail_at: usize,
}
impl ChunkCreator for Quota {
    type Chunk = Cursor<Vec<u8>>;
    type Error = io::Error;
    fn create(&self) -> Result<Self::Chunk, io::Error> {
        self.created.set(self.created.get() + 1);
        if self.created.get() == self.fail_at {
            return Err(io::Error::new(io::ErrorKind::PermissionDenied, "disk quota exceeded (EDQUOT)"));
        }
        Ok(Cursor::new(Vec::new()))
    }
}

fn run(fail_at: usize, consume: bool) -> Result<(), Error<Infallible>> {
    let mut builder = Sorter::builder(Concat);
    builder.dump_threshold(0).allow_realloc(false).max_nb_chunks(2);
    let mut sorter = builder.chunk_creator(Quota { created: Cell::new(0), fail_at }).build();
    let value = vec![1u8; 1024 * 1024];
    for i in 0..24u32 {
        sorter.insert(i.to_be_bytes(), &value)?;
    }
    if consume {
        let mut iter = sorter.into_stream_merger_iter()?;
        while let Some(_) = iter.next()? {}
    }
    Ok(())
}

#[test]
fn chunk_creator_failure_is_carried_by_the_error() {
    // sanity: with a creator that never fails everything works
    run(usize::MAX, true).unwrap();
    // 1: first spill, 2: second spill, 3: the chunk merge triggered by max_nb_chunks(2), 4: final flush
    for fail_at in 1..=4 {
        match run(fail_at, true) {
            Ok(()) => panic!("success reported although the chunk creator failed at its call #{}", fail_at),
            Err(Error::Io(e)) => {
                assert_eq!(e.kind(), io::ErrorKind::PermissionDenied, "call #{}: the I/O error kind was lost: {:?}", fail_at, e);
                assert!(e.to_string().contains("disk quota exceeded"), "call #{}: the failure is not carried: {}", fail_at, e);
            }
            Err(e) => panic!("call #{}: not reported as an I/O error: {}", fail_at, e),
        }
    }
}
