//! C07: the sorter's output never depends on when or how often data was spilled or chunks were merged.
//! With `max_nb_chunks(1)` every spill is followed by a chunk merge; the output must still be the sort-and-merge of
//! all inserts (and the process must still be alive to see it).
use std::borrow::Cow;
use std::collections::BTreeMap;
use std::convert::Infallible;

use grenad::{CursorVec, MergeFunction, Sorter};

struct Concat;
impl MergeFunction for Concat {
    type Error = Infallible;
    fn merge<'a>(&self, _key: &[u8], values: &[Cow<'a, [u8]>]) -> Result<Cow<'a, [u8]>, Infallible> {
        if values.len() == 1 {
            return Ok(values[0].clone());
        }
        Ok(values.iter().flat_map(|v| v.iter().copied()).collect())
    }
}

#[test]
fn output_does_not_depend_on_chunk_merges() {
    let mut builder = Sorter::builder(Concat);
    // 10 MiB fixed buffer (the minimum), at most one chunk on disk: the first spill already merges chunks
    builder.dump_threshold(0).allow_realloc(false).max_nb_chunks(1);
    let mut sorter = builder.chunk_creator(CursorVec).build();

    let mut want: BTreeMap<Vec<u8>, Vec<u8>> = BTreeMap::new();
    for i in 0..30u32 {
        let key = (i % 7).to_be_bytes().to_vec();
        let value = vec![i as u8; 1024 * 1024];
        sorter.insert(&key, &value).unwrap();
        want.entry(key).or_default().extend_from_slice(&value);
    }

    let mut got = BTreeMap::new();
    let mut iter = sorter.into_stream_merger_iter().unwrap();
    while let Some((k, v)) = iter.next().unwrap() {
        got.insert(k.to_vec(), v.to_vec());
    }
    assert!(got == want, "sorter output differs from the sort-and-merge of the inserts");
}
