//! C12: a failure of the source while a block is being loaded must surface as `Err` from the cursor call in
//! progress -- whatever the codec of the file.
use std::io::{self, Cursor, Read, Seek, SeekFrom};

use grenad::{CompressionType, Error, Reader, Writer};

/// An in-memory source whose `fail_at`-th call (read or seek) fails once.
struct FailingSource {
    inner: Cursor<Vec<u8>>,
    calls: usize,
    fail_at: usize,
}
impl FailingSource {
    fn tick(&mut self) -> io::Result<()> {
        self.calls += 1;
        if self.calls == self.fail_at {
            return Err(io::Error::new(io::ErrorKind::Other, "injected read failure"));
        }
        Ok(())
    }
}
impl Read for FailingSource {
    fn read(&mut self, buf: &mut [u8]) -> io::Result<usize> {
        self.tick()?;
        self.inner.read(buf)
    }
}
impl Seek for FailingSource {
    fn seek(&mut self, pos: SeekFrom) -> io::Result<u64> {
        self.tick()?;
        self.inner.seek(pos)
    }
}

fn scan(bytes: &[u8], fail_at: usize) -> (Result<usize, String>, usize) {
    let src = FailingSource { inner: Cursor::new(bytes.to_vec()), calls: 0, fail_at };
    let reader = match Reader::new(src) {
        Ok(r) => r,
        Err(e) => return (Err(e.to_string()), 0),
    };
    let mut cursor = reader.into_cursor().unwrap();
    let mut n = 0;
    let res = loop {
        match cursor.move_on_next() {
            Ok(Some(_)) => n += 1,
            Ok(None) => break Ok(n),
            Err(Error::Io(e)) => break Err(e.to_string()),
            Err(e) => break Err(format!("not an I/O error: {}", e)),
        }
    };
    (res, cursor.get_ref().calls)
}

#[test]
fn every_source_failure_surfaces_snappy_pre_05() {
    for codec in [CompressionType::None, CompressionType::Snappy, CompressionType::SnappyPre05] {
        let mut wb = Writer::builder();
        wb.compression_type(codec).block_size(1024).index_levels(1);
        let mut w = wb.memory();
        for i in 0..400u32 {
            w.insert(i.to_be_bytes(), [i as u8; 40]).unwrap();
        }
        let bytes = w.into_inner().unwrap();

        let (clean, total_calls) = scan(&bytes, usize::MAX);
        assert_eq!(clean, Ok(400));
        // the I/O sequence is deterministic: every call k <= total_calls does happen, so the failure does fire
        for k in 1..=total_calls {
            let (res, _) = scan(&bytes, k);
            match res {
                Ok(n) => panic!("{:?}: the scan reported success ({} entries) although the source failed at its call #{} of {}", codec, n, k, total_calls),
                Err(e) => assert!(e.contains("injected read failure"), "{:?}: failure surfaced as a different error: {}", codec, e),
            }
        }
    }
}
