//! C01: for every writer configuration -- compression codec *and level* included -- finishing the writer yields a
//! file that opens and scans back exactly the inserted entries. (Run with the crate's normal test profile, i.e. with
//! debug assertions on, as `cargo test` does.)
use std::io::Cursor;

use grenad::{CompressionType, Reader, Writer};

#[test]
fn snappy_with_any_compression_level_round_trips() {
    for codec in [CompressionType::Snappy, CompressionType::SnappyPre05] {
        for level in [0u32, 1, 6, 9] {
            let mut wb = Writer::builder();
            wb.compression_type(codec).compression_level(level).block_size(1024).index_levels(1);
            let mut w = wb.memory();
            let entries: Vec<(Vec<u8>, Vec<u8>)> =
                (0..300u32).map(|i| (i.to_be_bytes().to_vec(), vec![i as u8; 30])).collect();
            for (k, v) in &entries {
                w.insert(k, v).unwrap();
            }
            let bytes = w.into_inner().unwrap();

            let reader = Reader::new(Cursor::new(bytes)).unwrap();
            assert_eq!(reader.len(), 300);
            assert_eq!(reader.compression_type(), codec);
            let mut cursor = reader.into_cursor().unwrap();
            let mut got = Vec::new();
            while let Some((k, v)) = cursor.move_on_next().unwrap() {
                got.push((k.to_vec(), v.to_vec()));
            }
            assert_eq!(got, entries, "codec {:?} level {}", codec, level);
        }
    }
}
