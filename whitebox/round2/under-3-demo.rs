//! C07: each key's value is the merge of all values inserted *for that key*: the merge function receives the key
//! the values belong to. Here the merge function dispatches on a key prefix, as key-value stores with several
//! "sub-databases" in one key space do: `max:` keys keep the greatest u32, `cat:` keys concatenate.
//! Both behaviours are associative and return a lone value unchanged.
use std::borrow::Cow;
use std::collections::BTreeMap;
use std::convert::TryInto;

use grenad::{CursorVec, MergeFunction, Sorter};

struct ByNamespace;
impl MergeFunction for ByNamespace {
    type Error = String;
    fn merge<'a>(&self, key: &[u8], values: &[Cow<'a, [u8]>]) -> Result<Cow<'a, [u8]>, String> {
        if values.len() == 1 {
            return Ok(values[0].clone());
        }
        if key.starts_with(b"max:") {
            let mut best = 0u32;
            for v in values {
                let n = u32::from_be_bytes(v.as_ref().try_into().map_err(|_| format!("not a u32 under key {:?}", String::from_utf8_lossy(key)))?);
                best = best.max(n);
            }
            Ok(Cow::Owned(best.to_be_bytes().to_vec()))
        } else if key.starts_with(b"cat:") {
            Ok(Cow::Owned(values.iter().flat_map(|v| v.iter().copied()).collect()))
        } else {
            Err(format!("unknown namespace: {:?}", String::from_utf8_lossy(key)))
        }
    }
}

#[test]
fn merge_function_receives_the_key_of_the_values() {
    let mut sorter = Sorter::builder(ByNamespace).chunk_creator(CursorVec).build();
    let mut want: BTreeMap<Vec<u8>, Vec<u8>> = BTreeMap::new();
    for i in 0..40u32 {
        let k = format!("cat:{:02}", i % 5).into_bytes();
        let v = format!("<{}>", i).into_bytes();
        sorter.insert(&k, &v).unwrap();
        want.entry(k).or_default().extend_from_slice(&v);

        let k = format!("max:{:02}", i % 4).into_bytes();
        let n = (i * 7919) % 1000;
        sorter.insert(&k, n.to_be_bytes()).unwrap();
        let e = want.entry(k).or_insert_with(|| 0u32.to_be_bytes().to_vec());
        let cur = u32::from_be_bytes(e[..].try_into().unwrap());
        *e = cur.max(n).to_be_bytes().to_vec();
    }

    let mut got = BTreeMap::new();
    let mut iter = sorter.into_stream_merger_iter().expect("no component fails");
    while let Some((k, v)) = iter.next().expect("no component fails") {
        got.insert(k.to_vec(), v.to_vec());
    }
    assert_eq!(got, want);
}
