"""Run Kani harnesses on a scratch copy of /repo with cfg(kani) modules appended to the real files."""
import fcntl
import hashlib
import json
import os
import re
import shutil
import subprocess
import sys
import time

VERIF = os.path.dirname(os.path.dirname(os.path.abspath(__file__)))
CACHE = os.path.join(VERIF, '.cache')
KANI_DIR = os.path.join(VERIF, 'kani')

EXPECTED_PANICS = json.load(open(os.path.join(KANI_DIR, 'expected_panics.json'))) if os.path.exists(os.path.join(KANI_DIR, 'expected_panics.json')) else {}

# harness module file -> source file it is appended to
APPEND = {
    'varint.rs': 'src/varint.rs',
    'metadata.rs': 'src/metadata.rs',
    'count_write.rs': 'src/count_write.rs',
    'error.rs': 'src/error.rs',
    'compression.rs': 'src/compression.rs',
    'sorter.rs': 'src/sorter.rs',
    'block.rs': 'src/block.rs',
    'block_writer.rs': 'src/block_writer.rs',
    'reader_mod.rs': 'src/reader/mod.rs',
    'prefix_iter.rs': 'src/reader/prefix_iter.rs',
    'range_iter.rs': 'src/reader/range_iter.rs',
    'writer.rs': 'src/writer.rs',
    'merger.rs': 'src/merger.rs',
}


def tree_hash(repo):
    h = hashlib.sha256()
    for root, dirs, files in sorted(os.walk(os.path.join(repo, 'src'))):
        for f in sorted(files):
            p = os.path.join(root, f)
            h.update(p.encode())
            h.update(open(p, 'rb').read())
    for f in ('Cargo.toml', 'Cargo.lock'):
        p = os.path.join(repo, f)
        if os.path.exists(p):
            h.update(open(p, 'rb').read())
    for f in sorted(os.listdir(KANI_DIR)):
        h.update(open(os.path.join(KANI_DIR, f), 'rb').read())
    h.update(open(os.path.abspath(__file__), 'rb').read())
    return h.hexdigest()[:20]


def make_scratch(repo, dest):
    if os.path.exists(dest):
        shutil.rmtree(dest)
    os.makedirs(dest)
    for name in ('src', 'Cargo.toml', 'Cargo.lock', 'benches'):
        s = os.path.join(repo, name)
        if os.path.isdir(s):
            shutil.copytree(s, os.path.join(dest, name))
        elif os.path.exists(s):
            shutil.copy(s, os.path.join(dest, name))
    for f, target in APPEND.items():
        p = os.path.join(KANI_DIR, f)
        if os.path.exists(p):
            t = os.path.join(dest, target)
            if not os.path.exists(t):
                raise RuntimeError('kani: source file %s missing' % target)
            with open(t, 'a') as fh:
                fh.write('\n' + open(p).read())
    # cargo decides staleness by mtime: a copy that preserves old mtimes after a newer (e.g. patched) copy was built
    # at the same path would silently reuse the stale build, so every copied source file gets a fresh mtime
    for root, _, files in os.walk(dest):
        for fn in files:
            os.utime(os.path.join(root, fn), None)
    os.makedirs(os.path.join(dest, '.cargo'), exist_ok=True)
    open(os.path.join(dest, '.cargo', 'config.toml'), 'w').write('[net]\noffline = true\n')


def concrete_playback(h, cmd, scratch, env, timeout):
    """The verifier's counterexample replayed against the real code: Kani writes a unit test holding the concrete values of
    every kani::any() of the failing trace into the scratch copy (`--concrete-playback=inplace`), and `cargo kani playback`
    runs that test natively (no model checker involved) on the same sources. Returns dict(test, values, reproduced, tail)."""
    try:
        p = subprocess.run(cmd + ['-Z', 'concrete-playback', '--concrete-playback=inplace'], cwd=scratch, env=env,
                           capture_output=True, text=True, timeout=timeout)
        out = p.stdout + '\n' + p.stderr
        names = re.findall(r'^\s*- (kani_concrete_playback_\w+)', out, re.M)
        if not names:
            return dict(test=None, reproduced=None, tail=out[-800:], note='Kani produced no concrete playback test for this failure')
        name = names[0]
        src = ''
        for root, _, files in os.walk(os.path.join(scratch, 'src')):
            for fn in files:
                t = open(os.path.join(root, fn)).read()
                i = t.find('fn %s()' % name)
                if i >= 0:
                    a = t.rfind('#[test]', 0, i)
                    b = t.find('concrete_playback_run', i)
                    b = t.find('}', b) + 1 if b >= 0 else i + 2000
                    src = t[a:b]
        values = re.findall(r'^\s*// (.*)$', src, re.M)
        q = subprocess.run(['cargo', 'kani', 'playback', '-Z', 'concrete-playback', '--', name], cwd=scratch, env=env,
                           capture_output=True, text=True, timeout=timeout)
        qout = q.stdout + '\n' + q.stderr
        reproduced = ('test result: FAILED' in qout) and (name in qout)
        panic = re.findall(r"panicked at [^\n]*\n[^\n]*", qout)
        return dict(test=src[:4000], test_name=name, values=values[:40], reproduced=reproduced,
                    native_panic=(panic[0] if panic else None),
                    tail=qout[-600:] if not reproduced else '',
                    cmd='cargo kani playback -Z concrete-playback -- ' + name)
    except Exception as e:  # a playback problem never changes the verdict of the harness itself
        return dict(test=None, reproduced=None, note='playback failed to run: %s' % e)


def run_harnesses(harnesses, repo='/repo', timeout=1800, extra_args=()):
    """harnesses: list of names. Returns {name: dict(status, time_s, checks, output_tail, cex)}"""
    os.makedirs(os.path.join(CACHE, 'kani'), exist_ok=True)
    key = tree_hash(repo)
    results = {}
    cache_file = os.path.join(CACHE, 'kani', key + '.json')
    lock = open(os.path.join(CACHE, 'kani.lock'), 'w')
    fcntl.flock(lock, fcntl.LOCK_EX)
    try:
        cached = {}
        if os.path.exists(cache_file) and os.environ.get('VERIF_NO_CACHE') != '1':
            cached = json.load(open(cache_file))
        cached = {k: v for k, v in cached.items() if v.get('status') in ('success', 'failed')}
        todo = [h for h in harnesses if h not in cached]
        if todo:
            scratch = os.path.join(os.environ.get('TMPDIR', '/tmp'), 'grenad-verif-kani-%s' % hashlib.md5(VERIF.encode()).hexdigest()[:8])
            make_scratch(repo, scratch)
            env = dict(os.environ)
            env['CARGO_NET_OFFLINE'] = 'true'
            env['CARGO_TARGET_DIR'] = os.path.join(CACHE, 'kani-target')
            try:
                for h in todo:
                    cmd = ['cargo', 'kani', '-Z', 'function-contracts', '-Z', 'stubbing', '--harness', h,
                           ] + list(extra_args)
                    t0 = time.time()
                    try:
                        p = subprocess.run(cmd, cwd=scratch, env=env, capture_output=True, text=True, timeout=timeout)
                        out = p.stdout + '\n' + p.stderr
                        rc = p.returncode
                    except subprocess.TimeoutExpired as e:
                        out = (e.stdout or b'').decode(errors='replace') if isinstance(e.stdout, bytes) else (e.stdout or '')
                        out += '\nTIMEOUT'
                        rc = -9
                    dt = time.time() - t0
                    if 'VERIFICATION:- SUCCESSFUL' in out and rc == 0:
                        status = 'success'
                    elif 'out of memory' in out or 'CBMC timed out' in out:
                        status = 'error'
                    elif 'VERIFICATION:- FAILED' in out:
                        status = 'failed'
                    elif rc == -9:
                        status = 'timeout'
                    else:
                        status = 'error'
                    failed_checks = re.findall(r'Failed Checks: (.*)', out)
                    # harnesses whose every path must end in a *defined* refusal (expect/unwrap panic): the listed panic
                    # descriptions are the only failed checks allowed, and at least one must be present
                    exp = EXPECTED_PANICS.get(h)
                    if exp and status == 'failed':
                        if isinstance(exp, dict):
                            # deny-list form: every failed check must be a defined panic, i.e. none of the listed classes
                            if failed_checks and not any(re.search(d, fc, re.I) for d in exp['deny'] for fc in failed_checks):
                                status = 'success'
                        elif failed_checks and all(any(re.search(e, fc.strip()) for e in exp) for fc in failed_checks):
                            status = 'success'
                    elif exp and status == 'success':
                        status = 'failed'  # nothing refused: the call returned or the harness is vacuous
                    mm = re.search(r'\*\* (\d+) of (\d+) failed', out)
                    total = int(mm.group(2)) if mm else None
                    vt = re.search(r'Verification Time: ([\d.]+)s', out)
                    playback = None
                    if status == 'failed' and not exp and os.environ.get('VERIF_KANI_PLAYBACK', '1') == '1':
                        playback = concrete_playback(h, cmd, scratch, env, timeout)
                    cached[h] = dict(status=status, time_s=round(dt, 1), verification_time_s=float(vt.group(1)) if vt else None,
                                     checks=total, failed_checks=failed_checks[:10], cmd=' '.join(cmd),
                                     output_tail=out[-3000:] if status != 'success' else '', playback=playback)
                    json.dump(cached, open(cache_file, 'w'), indent=1)
            finally:
                shutil.rmtree(scratch, ignore_errors=True)
        for h in harnesses:
            results[h] = cached[h]
    finally:
        fcntl.flock(lock, fcntl.LOCK_UN)
    return results


if __name__ == '__main__':
    r = run_harnesses(sys.argv[1:])
    print(json.dumps(r, indent=1))
