"""--setup: check that the tools are present and warm the build caches (offline)."""
import hashlib
import os
import shutil
import subprocess
import sys
import time

VERIF = os.path.dirname(os.path.dirname(os.path.abspath(__file__)))


def setup(repo):
    ok = True
    for tool in ('verus', 'cargo', 'cargo-kani', 'cbmc'):
        if not shutil.which(tool):
            print('missing tool', tool)
            ok = False
    os.makedirs(os.path.join(VERIF, '.cache'), exist_ok=True)
    if not ok:
        return 1
    sys.path.insert(0, os.path.join(VERIF, 'lib'))
    import native_run
    import kani_run
    import verus_run
    t0 = time.time()
    # warm: Verus (first run is slower), native target dir (builds the codec crates once), Kani target dir
    try:
        v = verus_run.run(os.path.join(repo, 'src'))
        print('verus warm: verified=%s errors=%s in %.1fs' % (v['verified'], v['errors'], v['verus_wall_s']))
    except Exception as e:
        print('verus warm-up failed:', e)
        return 1
    scratch = os.path.join(os.environ.get('TMPDIR', '/tmp'), 'grenad-verif-native-%s' % hashlib.md5(VERIF.encode()).hexdigest()[:8])
    native_run.make_scratch(repo, scratch)
    env = dict(os.environ, CARGO_NET_OFFLINE='true', CARGO_TARGET_DIR=os.path.join(VERIF, '.cache', 'native-target'))
    p = subprocess.run(['cargo', 'test', '--offline', '--release', '--features', native_run.FEATURES, '--tests', '--no-run'],
                       cwd=scratch, env=env, capture_output=True, text=True)
    shutil.rmtree(scratch, ignore_errors=True)
    print('native build: rc=%d in %.1fs' % (p.returncode, time.time() - t0))
    if p.returncode != 0:
        print(p.stderr[-3000:])
        return 1
    r = kani_run.run_harnesses(['c14_varint_roundtrip_all_u32'], repo=repo)
    print('kani warm:', {k: v['status'] for k, v in r.items()})
    return 0
