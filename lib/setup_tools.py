"""--setup: check that the tools are present and warm the build caches (offline)."""
import os
import shutil
import subprocess
import sys


def setup(repo):
    ok = True
    for tool in ('verus', 'cargo', 'cargo-kani', 'cbmc'):
        if not shutil.which(tool):
            print('missing tool', tool)
            ok = False
    os.makedirs(os.path.join(os.path.dirname(os.path.dirname(os.path.abspath(__file__))), '.cache'), exist_ok=True)
    return 0 if ok else 1
