"""Bounded native stand-ins / witness searches: integration tests (public API only) run against a scratch copy
of /repo.  They are never counted as proved; they (a) stand in, labelled *bounded*, for links the deductive
verifier does not reach and (b) look for a concrete failing input when an obligation fails."""
import fcntl
import hashlib
import json
import os
import re
import shutil
import subprocess
import sys
import time

VERIF = os.path.dirname(os.path.dirname(os.path.abspath(__file__)))
CACHE = os.path.join(VERIF, '.cache')
NATIVE_DIR = os.path.join(VERIF, 'native')
FEATURES = 'zlib,lz4,zstd,rayon'


def tree_hash(repo):
    h = hashlib.sha256()
    for root, dirs, files in sorted(os.walk(os.path.join(repo, 'src'))):
        for f in sorted(files):
            p = os.path.join(root, f)
            h.update(p.encode())
            h.update(open(p, 'rb').read())
    for f in ('Cargo.toml', 'Cargo.lock'):
        p = os.path.join(repo, f)
        if os.path.exists(p):
            h.update(open(p, 'rb').read())
    for f in sorted(os.listdir(NATIVE_DIR)):
        p = os.path.join(NATIVE_DIR, f)
        if os.path.isfile(p):
            h.update(open(p, 'rb').read())
    return h.hexdigest()[:20]


def make_scratch(repo, dest):
    if os.path.exists(dest):
        shutil.rmtree(dest)
    os.makedirs(dest)
    for name in ('src', 'Cargo.toml', 'Cargo.lock', 'benches'):
        s = os.path.join(repo, name)
        if os.path.isdir(s):
            shutil.copytree(s, os.path.join(dest, name))
        elif os.path.exists(s):
            shutil.copy(s, os.path.join(dest, name))
    os.makedirs(os.path.join(dest, 'tests'), exist_ok=True)
    for f in os.listdir(NATIVE_DIR):
        if f.endswith('.rs'):
            shutil.copy(os.path.join(NATIVE_DIR, f), os.path.join(dest, 'tests', f))
    if os.path.isdir(os.path.join(NATIVE_DIR, 'common')):
        shutil.copytree(os.path.join(NATIVE_DIR, 'common'), os.path.join(dest, 'tests', 'common'))
    # cargo decides staleness by mtime: a copy that preserves old mtimes after a newer (e.g. patched) copy was built
    # at the same path would silently reuse the stale build, so every copied source file gets a fresh mtime
    for root, _, files in os.walk(dest):
        for fn in files:
            os.utime(os.path.join(root, fn), None)
    os.makedirs(os.path.join(dest, '.cargo'), exist_ok=True)
    open(os.path.join(dest, '.cargo', 'config.toml'), 'w').write('[net]\noffline = true\n')


def run_tests(tests, repo='/repo', tier='quick', seed=0, timeout=1500):
    """tests: list of 'file::testname' (file = integration test file stem). Returns {test: dict(status, stats, cex, time_s, output_tail)}"""
    os.makedirs(os.path.join(CACHE, 'native'), exist_ok=True)
    key = tree_hash(repo) + '-%s-%d' % (tier, seed)
    cache_file = os.path.join(CACHE, 'native', key + '.json')
    lock = open(os.path.join(CACHE, 'native.lock'), 'w')
    fcntl.flock(lock, fcntl.LOCK_EX)
    results = {}
    try:
        cached = {}
        if os.path.exists(cache_file) and os.environ.get('VERIF_NO_CACHE') != '1':
            cached = json.load(open(cache_file))
        cached = {k: v for k, v in cached.items() if v.get('status') in ('success', 'failed')}
        todo = [t for t in tests if t not in cached]
        if todo:
            scratch = os.path.join(os.environ.get('TMPDIR', '/tmp'), 'grenad-verif-native-%s' % hashlib.md5(VERIF.encode()).hexdigest()[:8])
            make_scratch(repo, scratch)
            env = dict(os.environ)
            env['CARGO_NET_OFFLINE'] = 'true'
            env['CARGO_TARGET_DIR'] = os.path.join(CACHE, 'native-target')
            env['VERIF_TIER'] = tier
            env['VERIF_SEED'] = str(seed)
            env['RUST_BACKTRACE'] = '0'
            try:
                for t in todo:
                    fstem, tname = t.split('::', 1)
                    # `name@dev`: the same test built with the dev profile (debug assertions and overflow checks ON, as in the
                    # crate's own `cargo test`); the test reads VERIF_PROFILE to reduce its volume
                    dev = tname.endswith('@dev')
                    if dev:
                        tname = tname[:-4]
                    env['VERIF_PROFILE'] = 'dev' if dev else 'release'
                    cmd = ['cargo', 'test', '--offline'] + ([] if dev else ['--release']) + ['--features', FEATURES, '--test', fstem, '--',
                           '--exact', tname, '--nocapture', '--test-threads', '1']
                    t0 = time.time()
                    # own process group, so that a test binary that never returns is killed together with cargo
                    pr = subprocess.Popen(cmd, cwd=scratch, env=env, stdout=subprocess.PIPE, stderr=subprocess.PIPE, text=True, start_new_session=True)
                    try:
                        o, e2 = pr.communicate(timeout=timeout)
                        out, rc = o + '\n' + e2, pr.returncode
                    except subprocess.TimeoutExpired:
                        try:
                            os.killpg(pr.pid, 9)
                        except Exception:
                            pass
                        try:
                            o, e2 = pr.communicate(timeout=30)
                        except Exception:
                            o, e2 = '', ''
                        out, rc = (o or '') + '\n' + (e2 or '') + '\nTIMEOUT after %d s' % timeout, -9
                    dt = time.time() - t0
                    stats = {}
                    for mm in re.finditer(r'^VERIF-STAT (\w+)=(.*)$', out, re.M):
                        v = mm.group(2).strip()
                        try:
                            v = json.loads(v)
                        except Exception:
                            pass
                        stats[mm.group(1)] = v
                    cex = [mm.group(1) for mm in re.finditer(r'^VERIF-CEX (.*)$', out, re.M)]
                    # the test process died from a signal other than an external kill (stack overflow -> SIGABRT, wild access ->
                    # SIGSEGV / SIGBUS, illegal instruction): a crash of the library under a stand-in that passes on the pinned
                    # tree. SIGKILL (9) is what an out-of-memory killer or a timeout sends: that stays undecided.
                    died = re.search(r'\(signal: (\d+), ([A-Z]+)[^)]*\)', out)
                    crashed = bool(died) and died.group(1) != '9'
                    if crashed:
                        so = 'stack overflow' if 'overflowed its stack' in out else died.group(2)
                        cex.append('%s: the test process was killed by signal %s (%s) while running %s -- no Rust panic, the library crashed the process' % (tname.split('_')[0].upper(), died.group(1), so, tname))
                    ran = re.search(r'test result: (\w+)\. (\d+) passed; (\d+) failed', out)
                    if rc == 0 and ran and int(ran.group(2)) == 1:
                        status = 'success'
                    elif (ran and int(ran.group(3)) >= 1) or crashed:
                        status = 'failed'
                    elif rc == -9:
                        status = 'timeout'
                    else:
                        status = 'error'
                    cached[t] = dict(status=status, stats=stats, cex=cex[:5], time_s=round(dt, 1), cmd=' '.join(cmd),
                                     output_tail=out[-4000:] if status != 'success' else '')
                    json.dump(cached, open(cache_file, 'w'), indent=1)
            finally:
                shutil.rmtree(scratch, ignore_errors=True)
        for t in tests:
            results[t] = cached[t]
    finally:
        fcntl.flock(lock, fcntl.LOCK_UN)
    return results


if __name__ == '__main__':
    print(json.dumps(run_tests(sys.argv[1:]), indent=1))
