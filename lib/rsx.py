"""Rust-aware text utilities (no external deps).

The extractor never retypes code: it works on the *text* of /repo/src and only
needs to know where comments/strings are (so that braces can be matched) and
where items (`mod`, `impl`, `trait`, `fn`) and loops start and end.
"""
import re


class LostAnchor(Exception):
    """The machinery cannot locate something it needs (=> exit 2, never a VIOLATION)."""


def mask(src):
    """Return a string of the same length as `src` in which comments, string
    literals and char literals are replaced by spaces (newlines kept)."""
    out = list(src)
    i, n = 0, len(src)

    def blank(a, b):
        for k in range(a, b):
            if out[k] != '\n':
                out[k] = ' '

    while i < n:
        c = src[i]
        if c == '/' and i + 1 < n and src[i + 1] == '/':
            j = src.find('\n', i)
            j = n if j < 0 else j
            blank(i, j)
            i = j
        elif c == '/' and i + 1 < n and src[i + 1] == '*':
            depth, j = 1, i + 2
            while j < n and depth:
                if src.startswith('/*', j):
                    depth += 1
                    j += 2
                elif src.startswith('*/', j):
                    depth -= 1
                    j += 2
                else:
                    j += 1
            blank(i, j)
            i = j
        elif c == '"' or (c in 'br' and re.match(r'(b?r#*"|b")', src[i:i + 6]) and (i == 0 or not (src[i - 1].isalnum() or src[i - 1] == '_'))):
            m = re.match(r'b?r(#*)"', src[i:])
            if m:
                hashes = m.group(1)
                start = i + m.end()
                j = src.find('"' + hashes, start)
                j = n if j < 0 else j + 1 + len(hashes)
                blank(i, j)
                i = j
            else:
                j = i + (2 if c == 'b' else 1)
                while j < n and src[j] != '"':
                    j += 2 if src[j] == '\\' else 1
                j = min(n, j + 1)
                blank(i, j)
                i = j
        elif c == "'":
            # char literal or lifetime
            m = re.match(r"'(\\.[^']*|[^\\'])'", src[i:])
            if m:
                blank(i, i + m.end())
                i += m.end()
            else:
                i += 1
        else:
            i += 1
    return ''.join(out)


OPEN = {'(': ')', '[': ']', '{': '}'}
CLOSE = {v: k for k, v in OPEN.items()}


def match_close(m, i):
    """m: masked text; i: index of an opening bracket. Return index of its match."""
    o = m[i]
    c = OPEN[o]
    depth = 0
    for j in range(i, len(m)):
        ch = m[j]
        if ch == o:
            depth += 1
        elif ch == c:
            depth -= 1
            if depth == 0:
                return j
    raise LostAnchor('unbalanced %r at %d' % (o, i))


def strip_test_modules(src):
    """Remove `#[cfg(test)] mod <name> { ... }` items."""
    while True:
        m = mask(src)
        mm = re.search(r'#\[cfg\(test\)\]\s*mod\s+\w+\s*\{', m)
        if not mm:
            return src
        close = match_close(m, mm.end() - 1)
        src = src[:mm.start()] + src[close + 1:]


def strip_attr_items(src, attr_regex):
    """Remove the item (ending at `;` or a balanced `{}`) that follows an attribute matching attr_regex."""
    while True:
        m = mask(src)
        mm = re.search(attr_regex, m)
        if not mm:
            return src
        j = mm.end()
        while True:
            if m[j] == ';':
                end = j + 1
                break
            if m[j] == '{':
                end = match_close(m, j) + 1
                break
            if m[j] in '([':
                j = match_close(m, j)
            j += 1
        src = src[:mm.start()] + src[end:]


class Fn:
    def __init__(self):
        self.name = None
        self.path = None      # qualified, e.g. BlockWriter::insert, IndexBlockCursor::recursive_index_block::recursive
        self.item_start = 0   # start of attributes/visibility
        self.kw = 0           # index of `fn`
        self.params_open = 0
        self.params_close = 0
        self.body_open = 0
        self.body_close = 0
        self.loops = []       # list of (kw_index, body_open, body_close) in textual order (nested fns excluded)
        self.closures = []


_HDR_FN = re.compile(r'^(?:pub(?:\s*\([^)]*\))?\s+)?(?:default\s+)?(?:const\s+)?(?:unsafe\s+)?(?:extern\s+"[^"]*"\s+)?fn\s+(\w+)')
_HDR_IMPL = re.compile(r'^(?:unsafe\s+)?impl\b')
_HDR_MOD = re.compile(r'^(?:pub(?:\s*\([^)]*\))?\s+)?mod\s+(\w+)')
_HDR_TRAIT = re.compile(r'^(?:pub(?:\s*\([^)]*\))?\s+)?(?:unsafe\s+)?trait\s+(\w+)')


def _strip_attrs(m, a, b):
    """Return index in [a,b) after leading whitespace and #[...] attributes."""
    i = a
    while i < b:
        if m[i].isspace():
            i += 1
        elif m[i] == '#' and i + 1 < b and m[i + 1] in '[!':
            j = m.find('[', i)
            i = match_close(m, j) + 1
        else:
            break
    return i


def _impl_type_name(hdr):
    s = hdr.strip()
    s = re.sub(r'^(unsafe\s+)?impl', '', s).lstrip()
    if s.startswith('<'):
        depth = 0
        for k, ch in enumerate(s):
            if ch == '<':
                depth += 1
            elif ch == '>' and (k == 0 or s[k - 1] != '-'):
                depth -= 1
                if depth == 0:
                    s = s[k + 1:]
                    break
    s = re.split(r'\bwhere\b', s)[0]
    trait = None
    mm = re.search(r'\sfor\s', ' ' + s)
    if mm:
        trait = s[:mm.start()].strip()
        s = s[mm.end() - 1:]
    s = s.strip().lstrip('&').strip()
    s = re.sub(r"^'\w+\s+", '', s)
    s = re.sub(r'^(mut|dyn)\s+', '', s)
    mm = re.match(r'[\w:]+', s)
    name = mm.group(0).split('::')[-1] if mm else s
    tname = None
    if trait:
        mm = re.match(r'[\w:]+', trait.strip())
        tname = mm.group(0).split('::')[-1] if mm else trait
    return name, tname


def parse_items(src, m=None):
    """Return list of Fn found in src (all nesting levels), with qualified paths."""
    if m is None:
        m = mask(src)
    fns = []
    # stack entries: dict(kind, name, open, fn)
    stack = []
    stmt_start = [0]  # per depth: start of the current "statement header"
    paren = 0
    i, n = 0, len(m)
    hdr_start = 0
    # We track boundaries: hdr_start is reset after ';' '{' '}' when not inside () or [].
    pstack = []
    while i < n:
        ch = m[i]
        if ch in '([':
            pstack.append(ch)
        elif ch in ')]':
            if pstack:
                pstack.pop()
        elif ch == ';' and not pstack:
            hdr_start = i + 1
        elif ch == '{':
            if pstack:
                # a brace inside parens/brackets (closure body in call args, etc.)
                close = match_close(m, i)
                # scan inside recursively for loops only (handled later by loop scan), skip
                stack.append({'kind': 'anon', 'open': i, 'pstack': pstack})
                pstack = []
                hdr_start = i + 1
                i += 1
                continue
            a = _strip_attrs(m, hdr_start, i)
            hdr = m[a:i]
            ent = {'kind': 'anon', 'open': i, 'pstack': None}
            mm = _HDR_FN.match(hdr)
            if mm:
                f = Fn()
                f.name = mm.group(1)
                f.item_start = _skip_ws(m, hdr_start)
                f.kw = a + hdr.find('fn', mm.start())
                f.kw = a + re.search(r'\bfn\b', hdr).start()
                f.params_open = m.find('(', f.kw)
                # generics may contain parentheses (Fn(..) bounds) before the param list
                f.params_open = _find_params_open(m, f.kw, i)
                f.params_close = match_close(m, f.params_open)
                f.body_open = i
                f.body_close = match_close(m, i)
                quals = [e['name'] for e in stack if e['kind'] in ('impl', 'fn', 'trait')]
                f.path = '::'.join(quals + [f.name])
                f.trait = next((e.get('trait') for e in reversed(stack) if e['kind'] == 'impl'), None)
                fns.append(f)
                ent = {'kind': 'fn', 'name': f.name, 'open': i, 'fn': f, 'pstack': None}
            elif _HDR_IMPL.match(hdr):
                name, tname = _impl_type_name(hdr)
                ent = {'kind': 'impl', 'name': name, 'trait': tname, 'open': i, 'pstack': None}
            elif _HDR_MOD.match(hdr):
                ent = {'kind': 'mod', 'name': _HDR_MOD.match(hdr).group(1), 'open': i, 'pstack': None}
            elif _HDR_TRAIT.match(hdr):
                ent = {'kind': 'trait', 'name': _HDR_TRAIT.match(hdr).group(1), 'open': i, 'pstack': None}
            stack.append(ent)
            hdr_start = i + 1
        elif ch == '}':
            if stack:
                ent = stack.pop()
                if ent.get('pstack') is not None:
                    pstack = ent['pstack']
            if not pstack:
                hdr_start = i + 1
        i += 1
    # loops
    for f in fns:
        f.loops = _find_loops(m, f, fns)
    return fns


def _skip_ws(m, i):
    while i < len(m) and m[i].isspace():
        i += 1
    return i


def _find_params_open(m, kw, body_open):
    # after `fn name`, skip optional generics <...> then expect '('
    mm = re.compile(r'fn\s+\w+\s*').match(m, kw)
    i = mm.end()
    if m[i] == '<':
        depth = 0
        while i < body_open:
            if m[i] == '<':
                depth += 1
            elif m[i] == '>' and m[i - 1] != '-':
                depth -= 1
                if depth == 0:
                    i += 1
                    break
            i += 1
        i = _skip_ws(m, i)
    if m[i] != '(':
        raise LostAnchor('cannot find parameter list of fn at %d' % kw)
    return i


def _find_loops(m, f, fns):
    nested = [(g.item_start, g.body_close) for g in fns
              if g is not f and g.body_open > f.body_open and g.body_close < f.body_close]
    loops = []
    for mm in re.finditer(r'\b(while|for|loop)\b', m[f.body_open:f.body_close]):
        k = f.body_open + mm.start()
        if any(a <= k <= b for a, b in nested):
            continue
        # `for<'a>` HRTB
        j = _skip_ws(m, k + len(mm.group(1)))
        if mm.group(1) == 'for' and m[j] == '<':
            continue
        # must be at statement/expression start: previous non-space char not alnum/_/. (labels `'a:` ok)
        p = k - 1
        while p >= 0 and m[p].isspace():
            p -= 1
        if p >= 0 and (m[p].isalnum() or m[p] in '_.'):
            continue
        # find the body '{' at paren depth 0
        depth = 0
        b = None
        while j < f.body_close:
            c = m[j]
            if c in '([':
                j = match_close(m, j)
            elif c == '{':
                b = j
                break
            elif c == ';':
                break
            j += 1
        if b is None:
            continue
        loops.append((k, b, match_close(m, b)))
    return loops


def line_of(src, idx):
    return src.count('\n', 0, idx) + 1
