"""Extract /repo/src, apply the rewrite table, inject contracts, assemble one Verus file.

Nothing here retypes code: function text is copied from the working tree, the
only textual differences are (a) the exact-match rewrite rules of
specs/modules.py and (b) injected specification text, every line of which is
marked so it can be stripped again by the round-trip self-check.
"""
import hashlib
import os
import re
import sys

sys.path.insert(0, os.path.dirname(os.path.abspath(__file__)))
import rsx  # noqa: E402
from rsx import LostAnchor  # noqa: E402

VERIF = os.path.dirname(os.path.dirname(os.path.abspath(__file__)))
SPECS = os.path.join(VERIF, 'specs')

INJ_OPEN = '/*<<*/'   # start of injected text
INJ_CLOSE = '/*>>*/'  # end of injected text


# --------------------------------------------------------------------------
# spec files
# --------------------------------------------------------------------------
class FnSpec:
    def __init__(self, path, props):
        self.path = path
        self.props = props
        self.parts = []     # (kind, arg, text, lineno)
        self.flags = set()
        self.src = None


_SUB = re.compile(r'^(fields|ret|sig|attr|body_start|body_end|loop_iter|loop|loop_body_start|loop_end|after_loop|hint_before|hint_after|replace|flag|closure)\b\s*(.*?):\s*$')


def parse_spec_file(path):
    """Returns (fnspecs, module_extra_text)."""
    fnspecs, extra = [], []
    cur, sub, buf = None, None, []
    in_extra = False

    def flush():
        nonlocal sub, buf
        if cur is not None and sub is not None:
            cur.parts.append((sub[0], sub[1], '\n'.join(buf).rstrip() + '\n', sub[2]))
        sub, buf = None, []

    if not os.path.exists(path):
        return fnspecs, ''
    for ln, line in enumerate(open(path).read().split('\n'), 1):
        if line.startswith('=== '):
            flush()
            in_extra = False
            toks = line[4:].split()
            if toks[0] == 'struct':
                cur = FnSpec('struct ' + toks[1], [])
                cur.src = '%s:%d' % (os.path.basename(path), ln)
                cur.flags.add('struct')
                fnspecs.append(cur)
            elif toks[0] == 'fn':
                props = []
                sem = None
                for t in toks[2:]:
                    if t.startswith('props='):
                        props = [p for p in t[6:].split(',') if p]
                    if t.startswith('sem='):
                        sem = [p for p in t[4:].split(',') if p]
                cur = FnSpec(toks[1], props)
                cur.sem = sem if sem is not None else props
                cur.src = '%s:%d' % (os.path.basename(path), ln)
                for t in toks[2:]:
                    if not t.startswith('props=') and not t.startswith('sem='):
                        cur.flags.add(t)
                fnspecs.append(cur)
            elif toks[0] == 'module_extra':
                cur = None
                in_extra = True
            else:
                raise LostAnchor('bad spec header %s:%d' % (path, ln))
            continue
        if in_extra:
            extra.append(line)
            continue
        if cur is None:
            continue
        mm = _SUB.match(line)
        if mm and not line.startswith(' '):
            flush()
            sub = (mm.group(1), mm.group(2).strip(), ln)
            continue
        if sub is not None:
            buf.append(line)
    flush()
    return fnspecs, '\n'.join(extra)


# --------------------------------------------------------------------------
# rewriting
# --------------------------------------------------------------------------
def apply_rewrites(src, rules, fname, warnings=None):
    """rules: list of dicts(kind='lit'|'re', pat, rep, count=int|None|'+', name, group=optional).
    Rules that share a `group` are one rewrite written as several textual steps: when any of them no longer matches, none of
    them is applied (a half-applied group yields text that does not even type-check)."""
    src0 = src
    out, log, failed = _apply_rewrites(src0, rules, fname, None if warnings is None else [], set())
    bad_groups = set(r['group'] for r in rules if r.get('group') and r['name'] in failed)
    if bad_groups:
        if warnings is not None:
            warnings.append('rewrite group(s) %s in %s not applied: a member rule lost its anchor' % (','.join(sorted(bad_groups)), fname))
        out, log, failed = _apply_rewrites(src0, rules, fname, warnings, bad_groups)
    else:
        out, log, failed = _apply_rewrites(src0, rules, fname, warnings, set())
    return out, log


def _apply_rewrites(src, rules, fname, warnings, skip_groups):
    log = []
    failed = set()
    for r in rules:
        if r.get('group') in skip_groups:
            continue
        if r.get('kind') == 'drop_item':
            n = 0
            new = src
            while True:
                mk = rsx.mask(new)
                mm = re.search(r['pat'], mk, flags=re.M)
                if not mm:
                    break
                j = mm.end()
                while True:
                    if mk[j] == ';':
                        end = j + 1
                        break
                    if mk[j] == '{':
                        end = rsx.match_close(mk, j) + 1
                        break
                    if mk[j] in '([':
                        j = rsx.match_close(mk, j)
                    j += 1
                new = new[:mm.start()] + '/* dropped item: %s */' % r['name'] + new[end:]
                n += 1
        elif r.get('kind') == 'mutself':
            # R-mutself: fn NAME(mut self ...) { B }  ->  fn NAME(self ...) { let mut slf = self; B[self->slf] }
            n = 0
            new = src
            mk = rsx.mask(new)
            for mm in reversed(list(re.finditer(r'\bfn\s+%s\s*(<[^(]*>)?\s*\(\s*mut self\b' % r['fn'], mk))):
                bo = mk.find('{', mm.end())
                # body brace: first '{' after the parameter list
                po = mk.find('(', mm.start())
                pc = rsx.match_close(mk, po)
                bo = mk.find('{', pc)
                bc = rsx.match_close(mk, bo)
                body = new[bo + 1:bc]
                mbody = mk[bo + 1:bc]
                out, last = [], 0
                for m2 in re.finditer(r'\bself\b', mbody):
                    out.append(body[last:m2.start()])
                    out.append('slf')
                    last = m2.end()
                out.append(body[last:])
                new = new[:mm.start()] + new[mm.start():mm.end()].replace('mut self', 'self') + new[mm.end():bo + 1] + ' let mut slf = self;' + ''.join(out) + new[bc:]
                n += 1
        elif r.get('kind') == 'assert_diverge':
            new, n = assert_diverge(src)
        elif r.get('kind', 'lit') == 'lit':
            n = src.count(r['pat'])
            new = src.replace(r['pat'], r['rep'])
        else:
            new, n = re.subn(r['pat'], r['rep'], src, flags=re.S | re.M)
        want = r.get('count', 1)
        ok = (n >= 1) if want == '+' else (True if want is None else n == want)
        if not ok:
            # the code the rule targets changed: apply what matched and let the verifier decide (it either still
            # accepts the text or reports an unsupported construct -> undecided); recorded as a warning
            failed.add(r['name'])
            if warnings is not None:
                warnings.append('rewrite rule %s in %s matched %d times, expected %s' % (r['name'], fname, n, want))
        log.append((r['name'], n))
        src = new
    return src, log, failed


def assert_diverge(src):
    """R-assert-diverge: `assert!(C, fmt...)` -> `if !(C) { crate::vstubs::vpanic(); }` (debug_assert! untouched)."""
    n = 0
    while True:
        m = rsx.mask(src)
        mm = re.search(r'(?<![\w!])assert!\(', m)
        if not mm:
            return src, n
        op = mm.end() - 1
        cl = rsx.match_close(m, op)
        # first top-level comma
        depth, cut = 0, cl
        for k in range(op + 1, cl):
            c = m[k]
            if c in '([{':
                depth += 1
            elif c in ')]}':
                depth -= 1
            elif c == ',' and depth == 0:
                cut = k
                break
        cond = src[op + 1:cut].strip()
        end = cl + 1
        if src[end:end + 1] == ';':
            end += 1
        src = src[:mm.start()] + 'if !(%s) { crate::vstubs::vpanic(); }' % cond + src[end:]
        n += 1


def inj(text):
    """Wrap injected text with markers (kept on the same lines)."""
    return INJ_OPEN + text + INJ_CLOSE


# --------------------------------------------------------------------------
# injection
# --------------------------------------------------------------------------
def inject(src, fnspecs, fname, warnings, taint=None, modname='', force_ext=None):
    """force_ext: functions ('mod::path') whose body the verifier could not process on a previous attempt: they keep their
    signature contract but become external_body (contract assumed, reported as undecided), body annotations are dropped."""
    taint = taint if taint is not None else set()
    force_ext = force_ext or set()
    m = rsx.mask(src)
    fns = rsx.parse_items(src, m)
    by_path = {}
    for f in fns:
        by_path.setdefault(f.path, []).append(f)
    edits = []  # (pos, end, text)  replace src[pos:end] by text ; insert if pos==end
    used = set()
    for sp in fnspecs:
        if 'struct' in sp.flags:
            name = sp.path.split()[1]
            mm = re.search(r'\bstruct\s+%s\b[^;{]*\{' % re.escape(name), m)
            if not mm:
                warnings.append('spec %s: struct %s not found in %s: section skipped' % (sp.src, name, fname))
                continue
            close = rsx.match_close(m, mm.end() - 1)
            for kind, arg, text, ln in sp.parts:
                if kind == 'fields':
                    edits.append((close, close, inj(text.rstrip('\n') + '\n')))
                elif kind == 'attr':
                    # before the struct keyword and its attributes/visibility: insert right before `pub struct`/`struct`
                    st = m.rfind('\n', 0, mm.start()) + 1
                    edits.append((st, st, inj(text.strip() + '\n')))
            continue
        path, ordinal = sp.path, 1
        mm = re.match(r'(.*)#(\d+)$', path)
        if mm:
            path, ordinal = mm.group(1), int(mm.group(2))
        cands = by_path.get(path, [])
        if len(cands) < ordinal:
            warnings.append('spec %s: function %s not found in %s: section skipped' % (sp.src, sp.path, fname))
            continue
        f = cands[ordinal - 1]
        used.add(id(f))
        tag = '%s' % sp.path
        if 'drop' in sp.flags:
            edits.append((f.item_start, f.body_close + 1, inj('/* dropped: %s */' % tag)))
            continue
        # markers for classification
        degraded = (modname + '::' + sp.path.split('#')[0]) in force_ext and 'external_body' not in sp.flags
        edits.append((f.body_open + 1, f.body_open + 1, inj('/*@FN %s props=%s sem=%s%s%s@*/' % (tag, ','.join(sp.props), ','.join(sp.sem), ' ext=1' if 'external_body' in sp.flags else '', ' deg=1' if degraded else ''))))
        edits.append((f.body_close, f.body_close, inj('/*@ENDFN %s@*/' % tag)))
        if 'external_body' in sp.flags or degraded:
            edits.append((f.item_start, f.item_start, inj('#[verifier::external_body] ')))
        lost_names = set()  # ghost variables declared by parts that had to be skipped
        for kind, arg, text, ln in sp.parts:
            text = text.rstrip('\n')
            if degraded and kind not in ('ret', 'sig', 'attr'):
                # body annotations of a degraded function are dropped, except ghost-field initialisers of struct literals
                # (the body is still type-checked by rustc)
                if not (kind in ('hint_before', 'hint_after') and re.match(r'^\s*\w+: Ghost\(', text.strip().split('\n')[0] or '')):
                    continue
            if lost_names and kind not in ('ret', 'sig', 'attr'):
                hit = [nm for nm in lost_names if re.search(r'\b%s\b' % re.escape(nm), text)]
                if hit:
                    # this part speaks about ghost variables that were never declared (their hint lost its anchor): skip it too
                    warnings.append('part %s %s of %s uses ghost variable(s) %s of a skipped hint: skipped' % (kind, arg, sp.path, ','.join(sorted(hit))))
                    taint.add(modname + '::' + sp.path.split('#')[0])
                    lost_names.update(re.findall(r'let ghost (?:mut )?(\w+)', text))
                    continue
            if kind == 'ret':
                # name the return value
                arrow = _find_arrow(m, f)
                if arrow is None:
                    warnings.append('spec %s: %s has no return type: ret part skipped' % (sp.src, sp.path))
                    taint.add(modname + '::' + sp.path.split('#')[0])
                    continue
                a, b = arrow
                edits.append((a, a, inj('(%s: ' % arg)))
                edits.append((b, b, inj(')')))
            elif kind == 'sig':
                edits.append((f.body_open, f.body_open, inj('\n' + text + '\n')))
            elif kind == 'attr':
                edits.append((f.item_start, f.item_start, inj(text.strip() + '\n')))
            elif kind == 'body_start':
                edits.append((f.body_open + 1, f.body_open + 1, inj('\n' + text + '\n')))
            elif kind == 'body_end':
                edits.append((f.body_close, f.body_close, inj('\n' + text + '\n')))
            elif kind in ('loop', 'loop_body_start', 'loop_end', 'after_loop'):
                k = int(arg)
                if k < 1 or k > len(f.loops):
                    warnings.append('spec %s: %s has %d loops, wanted #%d: part skipped' % (sp.src, sp.path, len(f.loops), k))
                    taint.add(modname + '::' + sp.path.split('#')[0])
                    continue
                kw, bo, bc = f.loops[k - 1]
                pos = {'loop': bo, 'loop_body_start': bo + 1, 'loop_end': bc, 'after_loop': bc + 1}[kind]
                edits.append((pos, pos, inj('\n' + text + '\n')))
            elif kind == 'loop_iter':
                k = int(arg)
                if k < 1 or k > len(f.loops):
                    warnings.append('spec %s: %s has %d loops, wanted #%d: part skipped' % (sp.src, sp.path, len(f.loops), k))
                    taint.add(modname + '::' + sp.path.split('#')[0])
                    continue
                kw, bo, bc = f.loops[k - 1]
                mm2 = re.compile(r'\bin\s+').search(m, kw, bo)
                if not mm2 or not m.startswith('for', kw):
                    warnings.append('spec %s: loop #%d of %s is not a for loop: part skipped' % (sp.src, k, sp.path))
                    taint.add(modname + '::' + sp.path.split('#')[0])
                    continue
                edits.append((mm2.end(), mm2.end(), inj(text.strip() + ': ')))
            elif kind in ('hint_before', 'hint_after'):
                mm2 = re.match(r'/(.*)/\s*(?:#(\d+))?$', arg)
                if not mm2:
                    raise LostAnchor('spec %s: bad hint anchor %r' % (sp.src, arg))
                rx, nth = re.compile(mm2.group(1)), int(mm2.group(2) or 1)
                body = src[f.body_open:f.body_close]
                found = None
                off = f.body_open
                cnt = 0
                for line in body.split('\n'):
                    if rx.search(line):
                        cnt += 1
                        if cnt == nth:
                            found = (off, off + len(line))
                            break
                    off += len(line) + 1
                if found is None:
                    warnings.append('hint anchor %r (#%d) of %s not found: hint skipped' % (mm2.group(1), nth, sp.path))
                    taint.add(modname + '::' + sp.path.split('#')[0])
                    lost_names.update(re.findall(r'let ghost (?:mut )?(\w+)', text))
                    continue
                pos = found[0] if kind == 'hint_before' else found[1]
                if kind == 'hint_before':
                    edits.append((pos, pos, inj(text + '\n')))
                else:
                    edits.append((pos, pos, inj('\n' + text)))
            elif kind == 'replace':
                # replace /regex/ => text within the fn item (used for closure annotations); must match exactly once
                mm2 = re.match(r'/(.*)/\s*(?:#(\d+))?$', arg)
                rx = re.compile(mm2.group(1), re.S)
                body = src[f.item_start:f.body_close + 1]
                ms = list(rx.finditer(body))
                nth = int(mm2.group(2) or 1)
                if len(ms) < nth:
                    warnings.append('spec %s: replace anchor %r of %s not found: part skipped' % (sp.src, mm2.group(1), sp.path))
                    taint.add(modname + '::' + sp.path.split('#')[0])
                    continue
                g = ms[nth - 1]
                edits.append((f.item_start + g.start(), f.item_start + g.end(), inj('/*R:%s*/' % g.group(0).replace('*/', '* /')) + g.expand(text.strip('\n'))))
            else:
                raise LostAnchor('spec %s: unknown part %s' % (sp.src, kind))
    # functions without a contract section: marked too (so that a diagnostic inside them can be attributed), and made
    # external_body when the verifier could not process them on a previous attempt
    for f in fns:
        if id(f) in used or f.body_open is None:
            continue
        deg = (modname + '::' + f.path) in force_ext
        edits.append((f.body_open + 1, f.body_open + 1, inj('/*@FN %s props= sem= unc=1%s@*/' % (f.path, ' deg=1' if deg else ''))))
        edits.append((f.body_close, f.body_close, inj('/*@ENDFN %s@*/' % f.path)))
        if deg:
            edits.append((f.item_start, f.item_start, inj('#[verifier::external_body] ')))
    # apply edits right-to-left; stable for equal positions (keep spec order)
    edits_sorted = sorted(enumerate(edits), key=lambda e: (e[1][0], e[0]))
    out, last = [], 0
    for _, (a, b, t) in edits_sorted:
        if a < last:
            raise LostAnchor('overlapping edits in %s at %d' % (fname, a))
        out.append(src[last:a])
        out.append(t)
        last = b
    out.append(src[last:])
    uncontracted = [f.path for f in fns if id(f) not in used]
    return ''.join(out), uncontracted


def _find_arrow(m, f):
    """Return (start,end) of the return type text of fn f, or None."""
    i = f.params_close + 1
    seg = m[i:f.body_open]
    mm = re.match(r'\s*->\s*', seg)
    if not mm:
        return None
    a = i + mm.end()
    # end: ` where` at depth 0 or body_open
    depth = 0
    j = a
    end = f.body_open
    while j < f.body_open:
        c = m[j]
        if c in '([<':
            depth += 1
        elif c in ')]':
            depth -= 1
        elif c == '>' and m[j - 1] != '-':
            depth -= 1
        elif depth == 0 and m.startswith('where', j) and not (m[j - 1].isalnum() or m[j - 1] == '_'):
            end = j
            break
        j += 1
    # trim trailing whitespace
    while end > a and m[end - 1].isspace():
        end -= 1
    return a, end


# --------------------------------------------------------------------------
# assembling
# --------------------------------------------------------------------------
# rules applied to every module, any number of matches (none on the pinned tree): constructs a change is likely to introduce and that
# the installed Verus cannot process, with an equivalent it can
COMMON_REWRITES = [
    dict(name='R-io-error-new', kind='re', count=None,
         pat=r'(?:std::)?io::Error::new\(\s*([^,()]+?),\s*"(?:[^"\\]|\\.)*"\s*,?\s*\)', rep=r'crate::vstubs::io_error_new(\1)'),
    # direct calls only (`u64::from_be_bytes(x)`); the `.map(u64::from_be_bytes)` forms of the pinned tree have their own rules
    dict(name='R-bytes-arr', kind='re', count=None,
         pat=r'\bu(32|64)::from_(be|le)_bytes\(', rep=r'crate::vstubs::u\1_from_\2_arr('),
]


def load_modules():
    import importlib.util
    spec = importlib.util.spec_from_file_location('modules', os.path.join(SPECS, 'modules.py'))
    mod = importlib.util.module_from_spec(spec)
    spec.loader.exec_module(mod)
    return mod


def strip_docs(src):
    """Drop `///` and `//!` doc comment lines (Verus accepts them, but they bloat the file)."""
    return re.sub(r'^[ \t]*//[/!].*\n', '', src, flags=re.M)


def build(repo_src, only=None, force_ext=None):
    """Returns dict(text=..., warnings=[...], rewrites=[...], uncontracted={mod:[...]}, sources={mod:path})."""
    cfg = load_modules()
    warnings, rewrites_log, uncontracted, sources = [], [], {}, {}
    taint = set()
    parts = []
    parts.append(open(os.path.join(SPECS, 'prelude.rs')).read())
    ghost = open(os.path.join(SPECS, 'ghost.rs')).read()
    parts.append(ghost)
    tree = {}  # name -> text
    for md in cfg.MODULES:
        if only and md['name'] not in only:
            continue
        p = os.path.join(repo_src, md['file'])
        if not os.path.exists(p):
            raise LostAnchor('source file %s missing' % p)
        src = open(p).read()
        sources[md['name']] = p
        src = rsx.strip_test_modules(src)
        src = strip_docs(src)
        src, log = apply_rewrites(src, md.get('rewrites', []) + COMMON_REWRITES, md['file'], warnings)
        rewrites_log += [(md['file'],) + x for x in log]
        fnspecs, extra = parse_spec_file(os.path.join(SPECS, 'contracts', md['name'].replace('::', '_') + '.spec'))
        src, unc = inject(src, fnspecs, md['file'], warnings, taint, md['name'], force_ext)
        uncontracted[md['name']] = unc
        tree[md['name']] = (md, src, extra)
    # nest modules: names like reader::range_iter go inside reader
    def render(name):
        md, src, extra = tree[name]
        children = [n for n in tree if n.startswith(name + '::') and '::' not in n[len(name) + 2:]]
        body = md.get('header', '') + '\n' + src + '\n' + extra + '\n'
        for c in children:
            body += render(c)
        short = name.split('::')[-1]
        return '/*@MOD %s@*/\npub mod %s {\n%s\n} // mod %s\n' % (name, short, body, short)
    body = ''
    for name in tree:
        if '::' not in name:
            body += render(name)
    root = open(os.path.join(SPECS, 'root.rs')).read()
    text = '\n'.join(parts) + '\nverus! {\n' + root + '\n' + body + '\n} // verus!\nfn main() {}\n'
    return dict(text=text, warnings=warnings, rewrites=rewrites_log, uncontracted=uncontracted, sources=sources, taint=sorted(taint),
                degraded=sorted(force_ext or []))


def source_hash(repo_src):
    h = hashlib.sha256()
    for root, _, files in sorted(os.walk(repo_src)):
        for f in sorted(files):
            if f.endswith('.rs'):
                p = os.path.join(root, f)
                h.update(p.encode())
                h.update(open(p, 'rb').read())
    for root, _, files in sorted(os.walk(SPECS)):
        for f in sorted(files):
            p = os.path.join(root, f)
            if '__pycache__' in p:
                continue
            h.update(p.encode())
            h.update(open(p, 'rb').read())
    for f in ('gen.py', 'rsx.py'):
        h.update(open(os.path.join(VERIF, 'lib', f), 'rb').read())
    return h.hexdigest()[:20]


if __name__ == '__main__':
    r = build(sys.argv[1] if len(sys.argv) > 1 else '/repo/src')
    out = sys.argv[2] if len(sys.argv) > 2 else '/tmp/gen.rs'
    open(out, 'w').write(r['text'])
    for w in r['warnings']:
        print('warning:', w, file=sys.stderr)
    print('wrote', out, len(r['text'].split('\n')), 'lines')
