"""Run Verus on the generated file (once per tree hash) and classify its diagnostics."""
import fcntl
import hashlib
import json
import os
import re
import subprocess
import sys
import time

sys.path.insert(0, os.path.dirname(os.path.abspath(__file__)))
import gen  # noqa: E402
from rsx import LostAnchor  # noqa: E402

VERIF = gen.VERIF
CACHE = os.path.join(VERIF, '.cache')

VERIF_FAIL_PATTERNS = [
    'postcondition not satisfied', 'precondition not met', 'precondition not satisfied', 'requires not satisfied', 'assertion failed',
    'loop invariant not satisfied', 'invariant not satisfied', 'possible arithmetic underflow/overflow',
    'possible division by zero', 'could not prove termination', 'decreases not satisfied',
    'possible bit shift underflow/overflow', 'cannot show invariant', 'constructed value may fail',
    'unable to prove assertion', 'assert_by', 'failed to prove', 'recommendation not met',
    'may be out of range', 'index out of bounds', 'possible out of bounds',
    'while loop: not all errors may have been reported', 'the postcondition', 'cannot prove',
    'failed this postcondition', 'at the end of the function body', 'loop ensures not satisfied',
    'bit-vector', 'bitvector', 'refinement', 'open invariant', 'unwrap', 'is_Some', 'is_some',
]
UNDECIDED_PATTERNS = ['resource limit', 'rlimit', 'timed out', 'timeout']


def verus_cmd(path, rlimit, seed=None, extra=()):
    cmd = ['verus', path, '--output-json', '--time-expanded', '--error-format=json',
           '--multiple-errors', '40', '--num-threads', '16', '--triggers-mode', 'silent',
           '--rlimit', str(rlimit)]
    if seed is not None and seed != 0:
        cmd += ['--smt-option', 'smt.random_seed=%d' % seed, '--smt-option', 'sat.random_seed=%d' % seed]
    return cmd + list(extra)


def run(repo_src='/repo/src', rlimit=60, seed=None, use_cache=True, tag=''):
    """Runs Verus on the generated file. When the file cannot be processed (rustc error, construct the installed Verus does not
    support) and every such diagnostic lies inside functions, those functions are *degraded* -- kept with their signature
    contract but marked external_body, body annotations dropped -- and the run is repeated (at most 4 rounds). The contract
    of a degraded function is then assumed, not checked: bin/check reports every property that has a clause or safety
    obligation in it as undecided, while the rest of the file is still decided."""
    force = set()
    reasons = {}
    for _round in range(5):
        res = _run_once(repo_src, rlimit, seed, use_cache, tag, force)
        if res['compiled'] or _round == 4:
            break
        culprits = set()
        whole_file = False
        for f in res['failures']:
            if f['kind'] != 'machinery':
                continue
            if f['fn'] and f['fn'] not in force and f['fn'] not in res['index'].fn_ext:
                culprits.add(f['fn'])
                reasons.setdefault(f['fn'], f['msg'][:200])
            elif not f['fn']:
                whole_file = True
        if whole_file or not culprits:
            break
        force |= culprits
    res['degraded'] = sorted(force) if res['compiled'] else []
    res['degraded_reasons'] = reasons
    return res


def _run_once(repo_src, rlimit, seed, use_cache, tag, force_ext):
    t0 = time.time()
    built = gen.build(repo_src, force_ext=set(force_ext))
    key = gen.source_hash(repo_src) + ('-s%d' % seed if seed else '') + ('-r%d' % rlimit) + tag
    if force_ext:
        key += '-d' + hashlib.sha256(','.join(sorted(force_ext)).encode()).hexdigest()[:8]
    d = os.path.join(CACHE, 'verus', key)
    os.makedirs(d, exist_ok=True)
    gpath = os.path.join(d, 'gen.rs')
    lock = open(os.path.join(CACHE, 'verus.lock'), 'w')
    fcntl.flock(lock, fcntl.LOCK_EX)
    try:
        done = os.path.join(d, 'done.json')
        if not (use_cache and os.path.exists(done) and os.environ.get('VERIF_NO_CACHE') != '1'
                and open(gpath).read() == built['text']):
            open(gpath, 'w').write(built['text'])
            cmd = verus_cmd('gen.rs', rlimit, seed)
            t1 = time.time()
            p = subprocess.run(cmd, cwd=d, capture_output=True, text=True)
            open(os.path.join(d, 'stdout.json'), 'w').write(p.stdout)
            open(os.path.join(d, 'stderr.jsonl'), 'w').write(p.stderr)
            json.dump({'cmd': ' '.join(cmd), 'exit': p.returncode, 'wall_s': time.time() - t1}, open(done, 'w'))
        meta = json.load(open(done))
        stdout = open(os.path.join(d, 'stdout.json')).read()
        stderr = open(os.path.join(d, 'stderr.jsonl')).read()
    finally:
        fcntl.flock(lock, fcntl.LOCK_UN)
    res = dict(gen=built, key=key, dir=d, gen_path=gpath, cmd=meta['cmd'], verus_wall_s=meta['wall_s'],
               exit=meta['exit'], wall_s=time.time() - t0)
    try:
        res['summary'] = json.loads(stdout)
    except Exception:
        res['summary'] = None
    diags = []
    for line in stderr.split('\n'):
        line = line.strip()
        if line.startswith('{'):
            try:
                diags.append(json.loads(line))
            except Exception:
                pass
    res['diags'] = diags
    res['raw_stderr'] = stderr
    classify(res)
    return res


class GenIndex:
    """Maps generated-file lines to module / function / label."""

    def __init__(self, text):
        self.lines = text.split('\n')
        self.fn_of = [None] * (len(self.lines) + 2)
        self.mod_of = [None] * (len(self.lines) + 2)
        self.fn_props = {}
        self.fn_sem = {}
        self.fn_ext = set()
        self.fn_unc = set()   # functions without a contract section
        self.fn_deg = set()   # functions degraded to external_body for this run
        self.labels = {}  # name -> dict(props, line, fn)
        self.label_lines = {}  # line -> [names]
        stack, mod = [], None
        for i, l in enumerate(self.lines, 1):
            for mm in re.finditer(r'/\*@(MOD|FN|ENDFN|L) ([^@]*)@\*/', l):
                kind, body = mm.group(1), mm.group(2).strip()
                if kind == 'MOD':
                    mod = body
                elif kind == 'FN':
                    toks = body.split()
                    name = (mod or '') + '::' + toks[0]
                    props, sem = [], None
                    for t in toks[1:]:
                        if t.startswith('props='):
                            props = [p for p in t[6:].split(',') if p]
                        if t.startswith('sem='):
                            sem = [p for p in t[4:].split(',') if p]
                    self.fn_props[name] = props
                    self.fn_sem[name] = sem if sem is not None else props
                    if 'ext=1' in toks[1:]:
                        self.fn_ext.add(name)
                    if 'unc=1' in toks[1:]:
                        self.fn_unc.add(name)
                    if 'deg=1' in toks[1:]:
                        self.fn_deg.add(name)
                    stack.append(name)
                elif kind == 'ENDFN':
                    if stack:
                        stack.pop()
                elif kind == 'L':
                    toks = body.split()
                    # `~Cxx`: the clause supports property Cxx but demands more than its statement (a fixed growth factor, an
                    # internal position after the end, ...): when it fails the proof chain of Cxx is broken (undecided), the
                    # property itself is not shown violated
                    self.labels[toks[0]] = dict(props=[t.lstrip('~') for t in toks[1:]], internal=[t[1:] for t in toks[1:] if t.startswith('~')], line=i, fn=None)
                    self.label_lines.setdefault(i, []).append(toks[0])
            self.fn_of[i] = stack[-1] if stack else None
            self.mod_of[i] = mod
        for name, lab in self.labels.items():
            lab['fn'] = self.sig_fn_of_line(lab['line'])
        # injected regions (text between /*<<*/ and /*>>*/): per line, the list of [col_start, col_end) intervals (0-based)
        self.inj = {}
        depth_open = False
        for i, l in enumerate(self.lines, 1):
            pos, iv = 0, []
            start = 0 if depth_open else None
            while True:
                if depth_open:
                    j = l.find('/*>>*/', pos)
                    if j < 0:
                        iv.append((start, len(l) + 1))
                        break
                    iv.append((start, j))
                    depth_open = False
                    pos = j + 6
                else:
                    j = l.find('/*<<*/', pos)
                    if j < 0:
                        break
                    depth_open = True
                    start = j
                    pos = j + 6
            if iv:
                self.inj[i] = iv

    def is_injected(self, line, col):
        """col is 1-based (as in rustc spans)"""
        for a, b in self.inj.get(line, []):
            if a <= col - 1 < b:
                return True
        return False

    def sig_fn_of_line(self, line):
        """Function whose signature/spec region or body contains the line."""
        if self.fn_of[line]:
            return self.fn_of[line]
        # look forward for the next FN marker before any ENDFN (we are in the signature)
        for j in range(line, min(len(self.lines), line + 400) + 1):
            l = self.lines[j - 1]
            mm = re.search(r'/\*@FN (\S+)', l)
            if mm:
                return (self.mod_of[j] or '') + '::' + mm.group(1)
            if '/*@ENDFN' in l:
                break
        return None


def classify(res):
    """Adds res['failures'] = list of dict(msg, labels, fn, props, line, rendered, kind)
    kind in {'obligation','undecided','machinery'}"""
    idx = GenIndex(res['gen']['text'])
    res['index'] = idx
    failures = []
    machinery = []
    for dg in res['diags']:
        if dg.get('level') != 'error':
            continue
        msg = dg.get('message', '')
        if msg.startswith('aborting due to'):
            continue
        spans = dg.get('spans', [])
        low = msg.lower()
        rendered = dg.get('rendered', msg)
        if any(p in low for p in UNDECIDED_PATTERNS):
            kind = 'undecided'
        elif dg.get('code') or not spans:
            kind = 'machinery'
        elif any(p in low for p in VERIF_FAIL_PATTERNS):
            kind = 'obligation'
        else:
            kind = 'machinery'
        labels, fn, line = [], None, None
        prim = [s for s in spans if s.get('is_primary')] or spans
        for s in spans:
            for ln in range(s['line_start'], s['line_end'] + 1):
                for name in idx.label_lines.get(ln, []):
                    # only count labels on the line where the span starts (clauses start with their label)
                    if ln == s['line_start'] and name not in labels:
                        labels.append(name)
        if prim:
            line = prim[0]['line_start']
            fn = idx.sig_fn_of_line(line)
        if fn is None:
            for s in spans:
                fn = idx.sig_fn_of_line(s['line_start'])
                if fn:
                    break
        props = []
        for name in labels:
            for p in idx.labels[name]['props']:
                if p not in props:
                    props.append(p)
        if not labels and fn:
            # safety-type obligations (overflow, index/unwrap preconditions declared in vstd) -> props;
            # other unlabelled obligations (callee contracts, unlabelled invariants/asserts) -> sem
            in_gen = [s for s in spans if s.get('file_name', '').endswith('gen.rs')]
            external_pre = ('precondition' in low) and len(in_gen) <= 1
            safety = ('arithmetic' in low or 'bit shift' in low or 'division' in low or external_pre)
            props = list(idx.fn_props.get(fn, [])) if safety else list(idx.fn_sem.get(fn, []))
        internal = [p for p in props if labels and all(p in idx.labels[n]['internal'] for n in labels if p in idx.labels[n]['props'])]
        f = dict(msg=msg, labels=labels, fn=fn, props=props, internal_props=internal, line=line, rendered=rendered, kind=kind)
        # a failed step of the injected proof script (an `assert` in a hint, the precondition of a lemma called from a hint): the
        # proof text no longer fits the code; that is not a violated contract. The function's verdicts are undecided.
        if kind == 'obligation' and not labels and fn and prim:
            pl, pc = prim[0]['line_start'], prim[0].get('column_start', 1)
            in_hint = idx.is_injected(pl, pc)
            if in_hint and ('assertion failed' in low or ('precondition not satisfied' in low)):
                f['kind'] = 'proofstep'
                allp = set(idx.fn_props.get(fn, [])) | set(idx.fn_sem.get(fn, []))
                for nm, lab in idx.labels.items():
                    if lab['fn'] == fn:
                        allp.update(lab['props'])
                f['props'] = sorted(allp)
        if kind == 'obligation' and not labels and (fn is None or fn in idx.fn_unc):
            # a proof obligation failed in code that carries no contract section: a function the specs do not know (added by
            # a change) or a lemma of the ghost library. The file was processed, so the other functions' verdicts stand;
            # this one is reported as "needs contract" (undecided), never as a violation.
            f['kind'] = 'unattributed'
        failures.append(f)
    res['failures'] = failures
    # function-level results
    fnres = {}
    s = res.get('summary') or {}
    try:
        for m in s['times-ms']['smt']['smt-run-module-times']:
            for fb in m.get('function-breakdown', []):
                fnres[fb['function']] = fb
    except Exception:
        pass
    res['fn_results'] = fnres
    vr = (s.get('verification-results') or {}) if s else {}
    res['verified'] = vr.get('verified')
    res['errors'] = vr.get('errors')
    res['compiled'] = bool(s) and not vr.get('encountered-vir-error', False) and (vr.get('verified') is not None) \
        and not any(f['kind'] == 'machinery' for f in failures)
    return res
